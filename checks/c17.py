"""C17 - parameter-map bookkeeping: file round trip for any number of ranks (simulated:
scatter / parse / gather / bcast path of load_subs under seeded schedules, P in 1..16 with weight
on P > rows) and inverse-pair cancellation (schedule-free; input enumeration over chains).

Map rows come from two pools: (1) every distinct row of the inv_subs files of fixture libraries
generated from the working tree at check time; (2) instantiations of the simplifier's substitution
tables rendered by sympy inside a rank process."""
import csv
import glob
import itertools
import os
import shutil
import time

from esrsim.common import scratch_root
from esrsim.pool import Pool
from . import base, configs
from .minimise import minimise

PID = 'C17'
JOB = 'checks.jobs:subs_world'
INTS = [-2, -1, 2, 3, 4]


def sigs_of(args, r):
    s = set()
    if r is None:
        return s
    if r.get('violation'):
        s.add(r['violation']['sig'])
    if r.get('sig'):
        s.add(r['sig'])
    for f in r.get('xdiff') or []:
        s.add('subs:differs-across-rank-counts')
    return s


def maxidx(s):
    import re
    idx = [int(m) for m in re.findall(r'(?<![A-Za-z0-9_])a(\d+)', s)]
    return max(idx) + 1 if idx else 0


def draw_file(fseed, pools):
    rng = base.rng_for(fseed, 'file')
    k = rng.choice([1, 2, 2, 3, 3, 4])
    steps = [t for t in pools['templates'][k]]
    libsteps = [t for t in pools['lib_steps'] if maxidx(t) <= k]
    librows = [r for r in pools['lib_rows'] if all(maxidx(t) <= k for t in r)]
    N = rng.choice([0, 1, 2, 3, 5, 8, 13, 21, 34, 60]) if rng.random() < 0.5 else rng.randint(0, 60)
    rows = []
    for _ in range(N):
        c = rng.random()
        if c < 0.2:
            rows.append([])
        elif c < 0.3:
            rows.append(['nan'])
        elif c < 0.55 and librows:
            rows.append(list(rng.choice(librows)))
        else:
            L = rng.choice([1, 1, 2, 2, 3, 4])
            src = steps + libsteps
            rows.append([rng.choice(src) for _ in range(L)])
    return k, rows


def alphabet(k, pools):
    dup = []
    a = ['a%d' % i for i in range(k)]
    dup += ['{%s: -%s}' % (x, x) for x in a] + ['{%s: 1/%s}' % (x, x) for x in a]
    for i, j in itertools.combinations(range(k), 2):
        dup += ['{a%d: a%d, a%d: a%d}' % (i, j, j, i), '{a%d: a%d, a%d: a%d}' % (j, i, i, j)]
    other = ['{a0: a0/2}', '{a0: sqrt(Abs(a0))}', 'nan']
    if k > 1:
        other.append('{a1: exp(a1)}')
    # every pure permutation / renaming map the simplifier can emit (3-cycles etc. are NOT self-inverse)
    import re
    perms = [t for t in pools['templates'].get(k, []) if re.fullmatch(r'\{(a\d: a\d(, )?)+\}', t) and t not in dup]
    return dup + other + perms


def draw_run(seed, i, pools, nfiles):
    rs = base.run_seed(seed, i)
    rng = base.rng_for(rs)
    fseed = base.run_seed(seed, 700000 + rng.randrange(nfiles))
    k, rows = draw_file(fseed, pools)
    N = len(rows)
    P = rng.choice([1, 2, 3, 4, 5, 7, 8, 11, 16]) if rng.random() < 0.6 else rng.randint(max(1, min(N, 15)), 16)
    kind = rng.choice(['uniform', 'pct', 'rr', 'lowest'])
    pol = {'kind': kind}
    if kind == 'pct':
        pol.update(d=rng.randint(1, 3), horizon=30 * P)
    if kind == 'rr':
        pol.update(p_stall=0.1, max_stall=20)
    alpha = alphabet(k, pools)
    chains = [[rng.choice(alpha) for _ in range(rng.randint(1, 5))] for _ in range(25)]
    # longer chains grown by inserting cancelling pairs at random places: nested patterns such as [A, A, B, C, C, B, A]
    small = rng.sample(alpha, min(len(alpha), rng.randint(2, 4)))
    for _ in range(25):
        ch = [rng.choice(small) for _ in range(rng.randint(0, 3))]
        for _ in range(rng.randint(1, 4)):
            x = rng.choice(small)
            pos = rng.randint(0, len(ch))
            ch[pos:pos] = [x, x]
        chains.append(ch[:11])
    pre = []
    if rng.random() < 0.5:
        pre = [[rng.random() < 0.5, rng.random() < 0.7] for _ in range(rng.randint(1, 2))]
    return dict(rows=rows, max_param=k, use_sympy=rng.random() < 0.6, bcast_res=rng.random() < 0.7, P=P, seed=rs, policy=pol,
                eager=rng.choice([0.0, 0.5, 1.0]), root_copy=rng.random() < 0.25, chains=chains, run_seed=rs, file_seed=fseed, pre_calls=pre)


def main(tier, seed, budget):
    T = base.Timer()
    rep = base.Reporter(PID)
    quick = tier == 'quick'
    explore_s = budget or (100 if quick else 1200)
    fixroot = '%s/esrsim-fix-c17-%d' % (scratch_root(), os.getpid())
    stats = dict(worlds=0, by_P={}, P_gt_rows=0, rows=0, steps=0, chains=0, events=0, nontrivial=set(), files=set(), use_sympy=0,
                 bcast=0, xgroups=0, exhaustive_chains=0)
    samples = []
    selftest = {}
    pending_min = []
    try:
        with Pool(16, hashseed=0) as pool:
            # ---- pools ----
            S = configs.SHIPPED
            fx = [('core_maths', 3), ('core_maths', 4), ('base_e_maths', 3), ('ext_maths', 3)] + ([] if quick else [('core_maths', 5), ('osc_maths', 4), ('keep_duplicates', 3)])
            jobs = [dict(fn='checks.jobs:gen_world', args=dict(runname=n, compl=c, P=1, seed=0, policy={'kind': 'lowest'}, oracle=False,
                                                               save_lib='%s/%s/compl_%d' % (fixroot, n, c)), timeout=1500) for n, c in fx]
            jobs += [dict(fn='checks.jobs:templates_world', args=dict(max_param=k, ints=INTS), tag=k) for k in (1, 2, 3, 4)]
            pools = dict(templates={}, lib_rows=[], lib_steps=[])
            for job, out in pool.imap(jobs, timeout=1500):
                if out[0] != 'ok' or out[1].get('violation'):
                    rep.harness_error('pool job %s failed: %s' % (job['fn'], str(out[1])[-300:]))
                    continue
                if 'tag' in job:
                    pools['templates'][job['tag']] = out[1]['templates']
            rows_seen = set()
            for f in sorted(glob.glob(fixroot + '/*/compl_*/inv_subs_*.txt')):
                with open(f) as fh:
                    for r in csv.reader(fh, delimiter=';'):
                        if r and tuple(r) not in rows_seen:
                            rows_seen.add(tuple(r))
            pools['lib_rows'] = sorted(rows_seen)
            pools['lib_steps'] = sorted({t for r in rows_seen for t in r})
            if len(pools['templates']) < 4:
                raise base.HarnessError('template generation failed')
            stats['pool_sizes'] = dict(library_rows=len(pools['lib_rows']), library_steps=len(pools['lib_steps']),
                                       templates={k: len(v) for k, v in pools['templates'].items()})
            nfiles = 150 if quick else 1500
            # ---- determinism self-test ----
            st = []
            for k in range(4):
                a = draw_run(seed, 960000 + k, pools, nfiles)
                a['P'] = [2, 3, 7, 16][k]
                for rep_i in range(2):
                    st.append(dict(fn=JOB, args=a, tag=(k, rep_i)))
            got = {}
            for job, out in pool.imap(st, timeout=600):
                if out[0] == 'ok':
                    got.setdefault(job['tag'][0], []).append((out[1]['digest'], out[1].get('result_digest'), repr((out[1]['violation'] or {}).get('sig'))))
            bad = [k for k, v in got.items() if len(v) == 2 and v[0] != v[1]]
            selftest['same_seed_twice'] = dict(pairs=len(got), mismatches=len(bad))
            if bad:
                rep.harness_error('determinism self-test failed: %s' % bad)
            xgroup = {}

            def handle(job, out):
                a = job['args']
                if out[0] != 'ok':
                    rep.harness_error('world seed=%s: %s %s' % (a['run_seed'], out[0], str(out[1])[-400:]))
                    return
                r = out[1]
                stats['worlds'] += 1
                stats['events'] += r['steps']
                stats['by_P'][a['P']] = stats['by_P'].get(a['P'], 0) + 1
                stats['P_gt_rows'] += int(a['P'] > len(a['rows']))
                stats['rows'] += len(a['rows'])
                stats['steps'] += sum(len(x) for x in a['rows'])
                stats['chains'] += len(a.get('chains') or [])
                stats['use_sympy'] += int(a['use_sympy'])
                stats['bcast'] += int(a['bcast_res'])
                stats['files'].add(a.get('file_seed'))
                if a['P'] > 1:
                    stats['nontrivial'].add((a.get('file_seed'), a['P'], a['use_sympy'], a['bcast_res'], r['rdigest']))
                ss = sigs_of(a, r)
                if not ss and r.get('result_digest') and a.get('file_seed') is not None:
                    gk = (a['file_seed'], a['use_sympy'])
                    if gk not in xgroup:
                        xgroup[gk] = (a['P'], r['result_digest'])
                    else:
                        stats['xgroups'] += 1
                        if xgroup[gk][1] != r['result_digest']:
                            ss.add('subs:differs-across-rank-counts')
                            r = dict(r, xdiff=[xgroup[gk][0], a['P']])
                if len(samples) < 4 and a['P'] > 1 and len(a['rows']) > 2:
                    samples.append(dict(rows_first=a['rows'][:4], nrows=len(a['rows']), max_param=a['max_param'], P=a['P'], use_sympy=a['use_sympy'],
                                        bcast_res=a['bcast_res'], policy=a['policy'], run_seed=a['run_seed'], chains_first=(a.get('chains') or [])[:2],
                                        verdict=sorted(ss) or 'ok'))
                for s in ss:
                    if rep.add(s, dict(run_seed=a['run_seed'], job=dict(fn=JOB, args=a), violation=r.get('violation'), probs=r.get('probs'))):
                        pending_min.append((s, a, r))
            # ---- in situ: generation, then load_subs of the file it wrote, in the same job; combining stage vs round files ----
            isj = []
            isc = [('core_maths', 3), ('core_maths', 4), ('base_e_maths', 3), ('base_e_maths', 4), ('osc_maths', 3), ('ext_maths', 3), ('keep_duplicates', 3)]
            if not quick:
                isc += [('core_maths', 5), ('keep_duplicates', 4), ('base10_maths', 4), ('ext_maths', 4), ('osc_maths', 4)]
            for ci, (rn_, c_) in enumerate(isc):
                for vi, P_ in enumerate((1, 2, 3) if quick else (1, 2, 3, 5, 2, 3)):
                    rs_ = base.run_seed(seed, 670000 + ci * 10 + vi)
                    rg_ = base.rng_for(rs_)
                    isj.append(dict(fn='checks.jobs:gen_load_world', timeout=1500, insitu=True,
                                    args=dict(runname=rn_, compl=c_, basis=None, P=P_, seed=rs_, run_seed=rs_, use_sympy=rg_.random() < 0.5,
                                              policy={'kind': rg_.choice(['uniform', 'pct', 'lowest', 'rr'])}, eager=rg_.choice([0.0, 0.5, 1.0]),
                                              rows=[], max_param=(c_ + 1) // 2, bcast_res=True)))
            for job, out in pool.imap(isj, timeout=1500):
                a = job['args']
                if out[0] != 'ok':
                    rep.harness_error('in-situ world %s/%d P=%d: %s %s' % (a['runname'], a['compl'], a['P'], out[0], str(out[1])[-400:]))
                    continue
                r = out[1]
                stats['insitu_worlds'] = stats.get('insitu_worlds', 0) + 1
                stats['insitu_rows'] = stats.get('insitu_rows', 0) + int((r.get('stats') or {}).get('rows') or 0)
                stats['insitu_chains'] = stats.get('insitu_chains', 0) + int((r.get('stats') or {}).get('precheck_chains') or 0)
                stats['events'] += r['steps']
                for s_ in sigs_of(a, r):
                    rep.add(s_, dict(run_seed=a['run_seed'], hashseed=0, job=dict(fn='checks.jobs:gen_load_world', args=a), violation=r.get('violation'), probs=r.get('probs')))
            # ---- exhaustive cancellation chains (schedule-free part) ----
            ej = []
            for k in (1, 2, 3) if quick else (1, 2, 3, 4):
                alpha = alphabet(k, pools)
                maxlen = {1: 4, 2: 3 if quick else 4, 3: 2 if quick else 3, 4: 2}[k]
                allch = [list(c) for L in range(1, maxlen + 1) for c in itertools.product(alpha, repeat=L)]
                stats['exhaustive_chains'] += len(allch)
                for off in range(0, len(allch), 1500):
                    ej.append(dict(fn=JOB, args=dict(rows=[], max_param=k, use_sympy=False, bcast_res=True, P=1, seed=0, policy={'kind': 'lowest'},
                                                     eager=0.5, chains=allch[off:off + 1500], run_seed=base.run_seed(seed, 650000 + k * 1000 + off // 1500)),
                                   timeout=900))
            for job, out in pool.imap(ej, timeout=900):
                handle(job, out)
            # ---- seeded exploration ----
            deadline = time.time() + explore_s

            def gen():
                i = 0
                while True:
                    yield dict(fn=JOB, args=draw_run(seed, i, pools, nfiles), timeout=600)
                    i += 1
            for job, out in pool.imap(gen(), timeout=600, deadline=deadline):
                handle(job, out)
            for s, a, r in pending_min[:5]:
                ma, mr, notes, okrep = minimise(pool, JOB, a, r, s, sigs_of, budget=20, timeout=600)
                ent = rep.violations.get(s) or rep.known_hits.get(s)
                if ent is not None:
                    ent['record'] = dict(run_seed=a['run_seed'], hashseed=0, job=dict(fn=JOB, args=ma), minimisation=notes,
                                         violation=mr.get('violation'), probs=mr.get('probs'), digest=mr.get('digest'), reproducible=okrep)
    finally:
        shutil.rmtree(fixroot, ignore_errors=True)
    wall = T()
    cov = dict(
        evaluations=stats['worlds'], distinct_nontrivial=len(stats['nontrivial']),
        rule='one evaluation = one simulated world in which every rank calls load_subs on a generated map file (0..60 rows; blank rows, nan, chains '
             'up to length 4 from the library pool and the template pool) and simplify_inv_subs on 40 generated chains; P, use_sympy, bcast_res and '
             'the scheduler policy are drawn from the run seed. Non-trivial = P >= 2; distinct by (file seed, P, options, reduced interleaving digest).',
        samples=samples, worlds_by_P=stats['by_P'], worlds_with_more_ranks_than_rows=stats['P_gt_rows'], distinct_files=len(stats['files']),
        rows_round_tripped=stats['rows'], steps_round_tripped=stats['steps'], chains_cancelled=stats['chains'],
        exhaustive_cancellation_chains=stats['exhaustive_chains'], cross_rank_count_comparisons=stats['xgroups'],
        in_situ_generation_then_load_worlds=stats.get('insitu_worlds', 0), in_situ_rows_round_tripped=stats.get('insitu_rows', 0), in_situ_combined_chains_compared_with_round_files=stats.get('insitu_chains', 0),
        worlds_use_sympy=stats['use_sympy'], worlds_bcast_res=stats['bcast'], pool_sizes=stats.get('pool_sizes'),
        seam_events=stats['events'], runs_per_hour=round(3600.0 * stats['worlds'] / max(wall, 1e-9)),
        fault_kinds={'F1 interleaving choice': stats['events'], 'F5 rank count': stats['worlds']}, selftest=selftest,
        components=base.COMPONENTS, harness_errors=len(rep.harness), repo_head=base.repo_head(), exhaustive=False)
    rc = rep.finish()
    base.write_evidence(PID, tier, seed, 'exploration', cov, wall, len(rep.violations),
                        ['clause (b), inverse-pair cancellation, is input enumeration and gains nothing from the simulator; it lives here because the property joins both clauses',
                         'the template pool mirrors the simplifier tables by hand and may lag behind a change of those tables; the library pool is regenerated from the working tree',
                         'values are compared numerically at generic points (30 digits, rel. 1e-12), keys likewise'])
    return rc
