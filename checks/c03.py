"""C03 - merging duplicates never changes a function.  Baseline configuration of the simulator:
P = 1, virtual clock (no time-limited step is ever skipped by machine load), library relocated
into scratch.  The schedule space of this configuration is a single point; what is generated
is the configuration (six shipped bases + seeded sub-bases through the guarded hook).
Oracle: LIVE + LIB-SOUND items 1-5."""
import time

from esrsim.pool import Pool
from . import base, configs
from .minimise import minimise

PID = 'C03'
JOB = 'checks.jobs:gen_world'


def sigs_of(args, r):
    s = set()
    if r is None:
        return s
    if r.get('violation'):
        s.add(r['violation']['sig'])
    if r.get('sig'):
        s.add(r['sig'])
    return s


def r_exp(r):
    return int(r.get('real_expired') or 0)


def main(tier, seed, budget):
    T = base.Timer()
    rep = base.Reporter(PID)
    quick = tier == 'quick'
    crng = base.rng_for(seed, 'c03-configs')
    cfgs, skipped = configs.pool(crng, n_sub=60 if quick else 300, max_n=5 if quick else 6, cap=1000 if quick else 3000, deep=True)
    hashseeds = [0] if quick else [0, 1, 2, 3]
    deadline = time.time() + (budget or (170 if quick else 1500))
    stats = dict(worlds=0, functions=0, merged=0, mapped=0, nan_chains=0, points=0, inconclusive=0, family_ok=0, family_inconclusive=0, rechecked_equal=0, rechecked_noise=0, round_checked=0, nontrivial=set(), events=0,
                 not_run=0, wall_timeouts=[], real_cap_expiries=0, not_generated=[])
    samples = []
    pending_min = []
    for hs in hashseeds:
        # cheap configurations first so that a budget cut drops the expensive tail
        order = sorted(cfgs, key=lambda c: c['nfun'])
        if hs != hashseeds[0]:
            order = [c for c in order if c['nfun'] <= 700]
        with Pool(16, hashseed=hs) as pool:
            jobs = [dict(fn=JOB, args=dict(runname=c['runname'], compl=c['compl'], basis=c['basis'], P=1, seed=0, policy={'kind': 'lowest'},
                                           run_seed=base.run_seed(seed, i), nfun=c['nfun'], hashseed=hs), timeout=420 if quick else 1800)
                    for i, c in enumerate(order)]
            njobs = len(jobs)
            ndone = 0
            for job, out in pool.imap(jobs, timeout=1800, deadline=deadline):
                a = job['args']
                ndone += 1
                if out[0] == 'timeout':
                    stats['wall_timeouts'].append([a['runname'], a['compl'], a['nfun']])
                    continue
                if out[0] != 'ok':
                    rep.harness_error('world %s/%d: %s %s' % (a['runname'], a['compl'], out[0], str(out[1])[-300:]))
                    continue
                stats['real_cap_expiries'] += r_exp(out[1])
                r = out[1]
                stats['worlds'] += 1
                stats['events'] += r['steps']
                st = r.get('stats') or {}
                for k in ('functions', 'merged', 'mapped', 'nan_chains', 'points', 'inconclusive', 'family_ok', 'family_inconclusive', 'rechecked_equal', 'rechecked_noise', 'round_checked'):
                    stats[k] += st.get(k, 0)
                if st.get('merged', 0) > 0:
                    stats['nontrivial'].add((a['runname'], a['compl'], hs))
                ss = sigs_of(a, r)
                if r.get('violation') and a['basis'] is not None:
                    # the sequential, fault-free generation itself failed for a seeded sub-basis: no library exists for C03
                    # to judge, and the failure has nothing a scheduler or fault injector controls (see DESIGN 11: a crash in
                    # the tree-rewriting code, C11 territory).  Recorded in the evidence, not reported.  For the six shipped
                    # bases - ESR's advertised domain - a failure to produce the library IS reported.
                    stats['not_generated'].append([a['runname'], a['compl'], a['basis'], r['violation']['sig'][:90]])
                    print('NOTE C03: configuration %s/%d %s was not generated (%s)' % (a['runname'], a['compl'], a['basis'][1:], r['violation']['sig'][:90]), flush=True)
                    ss = set()
                if len(samples) < 4 and (a['basis'] is not None or len(samples) < 2) and st.get('merged', 0) > 0:
                    samples.append(dict(config=[a['runname'], a['compl'], a['basis']], hashseed=hs, functions=st.get('functions'),
                                        merged=st.get('merged'), with_map=st.get('mapped'), unrecoverable=st.get('nan_chains'),
                                        uniques=r.get('nuniq'), verdict=sorted(ss) or 'ok'))
                for s in ss:
                    if rep.add(s, dict(run_seed=a['run_seed'], hashseed=hs, job=dict(fn=JOB, args=a), violation=r.get('violation'), probs=r.get('probs'))):
                        pending_min.append((s, a, r, hs))
            stats['not_run'] += njobs - ndone
            for s, a, r, hs_ in [p for p in pending_min if p[3] == hs][:4]:
                ma, mr, notes, okrep = minimise(pool, JOB, a, r, s, sigs_of, budget=3, timeout=1800)
                ent = rep.violations.get(s) or rep.known_hits.get(s)
                if ent is not None:
                    ent['record'] = dict(run_seed=a['run_seed'], hashseed=hs, job=dict(fn=JOB, args=ma), minimisation=notes,
                                         violation=mr.get('violation'), probs=mr.get('probs'), digest=mr.get('digest'), reproducible=okrep)
                    if not okrep:
                        rep.harness_error('violation %s did not replay' % s)
    if len(stats['wall_timeouts']) > max(2, 0.1 * max(stats['worlds'], 1)):
        rep.harness_error('%d configurations exceeded the wall timeout' % len(stats['wall_timeouts']))
    wall = T()
    cov = dict(
        evaluations=stats['worlds'], distinct_nontrivial=len(stats['nontrivial']),
        rule='one evaluation = one simulated 1-rank generation world (fault-free, virtual clock). Configurations: the six shipped bases at '
             'complexities 1..%d plus seeded sub-bases (unary subset of 9 operators, binary subset of 5) while the predicted function count stays '
             'under the cap. Non-trivial = at least one function was merged into a different unique function; distinct by (basis, complexity, hash seed).'
             % (5 if quick else 6),
        samples=samples, interleavings=1, configurations=len(cfgs), configurations_skipped_over_cap=len(skipped),
        configurations_not_run_budget=stats['not_run'], configurations_wall_timeout=stats['wall_timeouts'], sub_basis_configurations_not_generated=stats['not_generated'],
        real_time_cap_expiries=stats['real_cap_expiries'], functions_checked=stats['functions'], functions_merged=stats['merged'],
        functions_with_recorded_map=stats['mapped'], functions_marked_unrecoverable=stats['nan_chains'],
        oracle_points_evaluated=stats['points'], final_maps_compared_with_round_files=stats['round_checked'], same_family_pairs_confirmed=stats['family_ok'], same_family_pairs_inconclusive=stats['family_inconclusive'],
        oracle_points_rechecked_equal_at_200_digits=stats['rechecked_equal'], oracle_points_discarded_as_unstable=stats['rechecked_noise'], oracle_inconclusive_functions=stats['inconclusive'], hash_seeds=hashseeds,
        seam_events=stats['events'], runs_per_hour=round(3600.0 * stats['worlds'] / max(wall, 1e-9)),
        fault_kinds={'none (baseline configuration)': 0, 'F6 hash seed': len(hashseeds)}, components=base.COMPONENTS,
        harness_errors=len(rep.harness), repo_head=base.repo_head(), exhaustive=False)
    rc = rep.finish()
    base.write_evidence(PID, tier, seed, 'exploration', cov, wall, len(rep.violations),
                        ['this is the fault-free, single-rank configuration of the C13/C15 simulation: the simulator contributes the virtual clock '
                         '(no step skipped by machine load) and the relocation of the library directory; no schedule is explored',
                         'map exactness is checked numerically at >= 6 generic real points (x in [0.3,3], parameters +-[0.3,3]) with 30-digit arithmetic',
                         'the same-family clause for unrecoverable maps is checked in the forward direction: for sampled parameters of the function there are parameters of the unique function reproducing it on 8 abscissae (candidate combinations + Levenberg-Marquardt, float64, 1e-7); reported only if every one of >= 5 samples fails from every start; distinct (function, unique) pairs are cached per worker, so the counts are pairs first seen by a worker'])
    return rc
