"""Common machinery of the property checks: tiers/seeds/budgets, known findings, replay files,
evidence, determinism self-tests, reporting."""
import fnmatch
import hashlib
import json
import os
import random
import sys
import time

VERIF = os.path.dirname(os.path.dirname(os.path.abspath(__file__)))
EXIT_OK, EXIT_VIOLATION, EXIT_HARNESS = 0, 1, 3


class HarnessError(Exception):
    pass


def env_int(name, default):
    try:
        return int(os.environ.get(name, default))
    except (TypeError, ValueError):
        return default


def repo_head():
    import subprocess
    try:
        h = subprocess.run(['git', '-C', os.environ.get('ESRSIM_REPO', '/repo'), 'rev-parse', '--short', 'HEAD'],
                           capture_output=True, text=True, timeout=20).stdout.strip()
        d = subprocess.run(['git', '-C', os.environ.get('ESRSIM_REPO', '/repo'), 'status', '--porcelain', '--', 'esr'],
                           capture_output=True, text=True, timeout=20).stdout.strip()
        return h + ('+dirty' if d else '')
    except Exception:
        return 'unknown'


def load_known():
    p = os.path.join(VERIF, 'known_findings.json')
    if not os.path.exists(p):
        return []
    with open(p) as f:
        return json.load(f).get('findings', [])


def match_known(known, pid, sig):
    for k in known:
        if k.get('property') == pid and k.get('status') == 'open' and fnmatch.fnmatchcase(sig, k['key']):
            return k
    return None


class Reporter:
    """Collects violations, de-duplicates by signature, prints the contract lines."""

    def __init__(self, pid):
        self.pid = pid
        self.known = load_known()
        self.violations = {}     # sig -> dict(first record, count)
        self.known_hits = {}
        self.harness = []

    def add(self, sig, record):
        k = match_known(self.known, self.pid, sig)
        tgt = self.known_hits if k else self.violations
        ent = tgt.setdefault(sig, dict(count=0, record=record, known=k))
        ent['count'] += 1
        return ent['count'] == 1 and not k

    def harness_error(self, what):
        self.harness.append(what)
        print('HARNESS-ERROR %s: %s' % (self.pid, what), flush=True)

    def write_replay(self, sig, record):
        d = os.environ.get('ESRSIM_REPLAY_DIR') or os.path.join(VERIF, 'replays')
        os.makedirs(d, exist_ok=True)
        h = hashlib.sha256(sig.encode()).hexdigest()[:10]
        path = os.path.join(d, '%s-%s-%s.json' % (self.pid, record.get('run_seed', 0), h))
        rec = dict(record)
        rec['property'] = self.pid
        rec['signature'] = sig
        rec['repo_head'] = repo_head()
        with open(path, 'w') as f:
            json.dump(rec, f, indent=1, default=str)
        return path

    def finish(self):
        for sig, ent in sorted(self.known_hits.items()):
            print('KNOWN-FINDING: property=%s %s (%s; seen %d times) [%s]' % (
                self.pid, ent['known']['what'], ent['known']['key'], ent['count'], sig), flush=True)
        rc = EXIT_OK
        for sig, ent in sorted(self.violations.items()):
            path = ent.get('replay') or self.write_replay(sig, ent['record'])
            print('VIOLATION property=%s replay=%s' % (self.pid, path), flush=True)
            print('  signature: %s   (seen %d times)' % (sig, ent['count']), flush=True)
            rc = EXIT_VIOLATION
        if self.harness and rc == EXIT_OK:
            rc = EXIT_HARNESS
        return rc


def write_evidence(pid, tier, seed, level, coverage, wall_s, violations, assumptions, extra=None):
    d = os.environ.get('ESRSIM_EVIDENCE_DIR') or os.path.join(VERIF, 'evidence')
    os.makedirs(d, exist_ok=True)
    ev = dict(property_id=pid, tier=tier, seed=int(seed), level=level, coverage=coverage,
              assumptions=assumptions, wall_s=round(float(wall_s), 2), violations=int(violations))
    if extra:
        ev.update(extra)
    tmp = os.path.join(d, pid + '.json.tmp')
    with open(tmp, 'w') as f:
        json.dump(ev, f, indent=1, default=str)
    os.replace(tmp, os.path.join(d, pid + '.json'))
    return ev


COMPONENTS = {
    'real': ['esr.generation.* / esr.fitting.* from /repo working tree (via symlink farm)', 'sympy, numpy, scipy, pandas',
             'CPython signal machinery (handler invocation via signal.raise_signal)', 'file system (tmpfs scratch)',
             '/bin/sh, cat, find, sort -V, sed, mv, rm, touch'],
    'stub': ['mpi4py.MPI.COMM_WORLD (bcast/gather/scatter/Barrier/Get_rank/Get_size, ~100 lines, MPI-standard matching and completion rules)',
             'signal.alarm (virtual timer; expiry decided by the fault plan)'],
    'simulated': ['rank scheduling (baton passing, seeded policy)', 'collective completion mode (eager/rendezvous coin)',
                  'timer expiry points (statement ticks via AST instrumentation; call events inside sympy)',
                  'file-system operations on the shared scratch tree as pre-emption points; opening a file for writing is two of them (before the open; after the truncation, before any data)'],
}


def tier_and_seed(argv_tier):
    tier = os.environ.get('VERIF_TIER') or argv_tier or 'quick'
    if tier not in ('quick', 'thorough'):
        tier = 'quick'
    seed = env_int('VERIF_SEED', 20261004)
    budget = env_int('VERIF_BUDGET_S', 0)
    return tier, seed, budget


def run_seed(seed, i):
    return seed * 1_000_000 + i


def rng_for(seed, *salt):
    h = hashlib.sha256(repr((seed,) + salt).encode()).digest()
    return random.Random(int.from_bytes(h[:8], 'big'))


class Timer:
    def __init__(self):
        self.t0 = time.time()

    def __call__(self):
        return time.time() - self.t0


def short(obj, n=300):
    s = json.dumps(obj, default=str)
    return s if len(s) <= n else s[:n] + '...'
