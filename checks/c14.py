"""C14 - work partitioning tiles the function list; fitting stages complete on any ranks.

Layer 1 (TILE): the slices get_functions / split_idx actually hand to the ranks of a simulated
world, for (N, P) with weight on P > N, P not dividing N, N in {0,1,P-1,P,P+1}.
Layer 2: the real stages test_all -> test_all_Fisher -> match -> combine_DL on fixture libraries,
from a fresh output directory (likelihood constructed on every rank), under seeded schedules;
LIVE + ROW oracles + equality of the deterministic stages with a 1-rank run on the same inputs."""
import os
import shutil
import time

from esrsim.common import scratch_root
from esrsim.pool import Pool
from . import base, configs
from .minimise import minimise

PID = 'C14'
TIMED_LINES = []
TL_LINES = []
JOB_FIT = 'checks.jobs:fit_world'
JOB_TILE = 'checks.jobs:slices_world'
JOB_GEN = 'checks.jobs:gen_world'
P_CHOICES = [1, 2, 2, 3, 3, 4, 5, 5, 7, 8, 11, 11, 13, 16]
POLICIES = ['uniform', 'uniform', 'pct', 'pct', 'rr', 'lowest']


def sigs_of(args, r):
    s = set()
    if r is None:
        return s
    if r.get('violation'):
        s.add(r['violation']['sig'])
    if r.get('sig'):
        s.add(r['sig'])
    return s


def draw_policy(rng, P):
    kind = rng.choice(POLICIES)
    pol = {'kind': kind}
    if kind == 'pct':
        pol.update(d=rng.randint(1, 3), horizon=120 * P)
    if kind == 'rr':
        pol.update(p_stall=rng.choice([0.02, 0.1, 0.3]), max_stall=rng.choice([5, 30, 120]))
    return pol


def fixture_configs(tier):
    S = configs.SHIPPED
    if tier == 'quick':
        lst = [('core_maths', 3), ('osc_maths', 3), ('core_maths', 1), ('core_maths', 2)]
    else:
        lst = [('core_maths', 3), ('core_maths', 4), ('osc_maths', 3), ('base_e_maths', 3), ('ext_maths', 3), ('core_maths', 2), ('core_maths', 1)]
    return [dict(runname=n, basis=None, compl=c, nfun=configs.nfun(S[n], c)) for n, c in lst]


def timed_lines():
    """Source lines of simplifier.time_limit and of test_all.main's fitting loop / optimise_fun (found by text, so that
    line shifts do not matter): candidates for 'the timeout strikes before this statement' in the fitting stage."""
    import re
    from esrsim.common import REPO
    repo = os.environ.get('ESRSIM_REPO', REPO)
    out = []
    TL_LINES[:] = []
    for rel, start, stop in (('esr/generation/simplifier.py', 'def time_limit', 'def get_max_param'),
                             ('esr/fitting/test_all.py', 'def optimise_fun', 'def main'),
                             ('esr/fitting/test_all.py', '    for i in range(len(fcn_list_proc)):', '    out_arr = ')):
        try:
            src = open(os.path.join(repo, rel)).read().splitlines()
        except Exception:
            continue
        on = False
        for n, ln in enumerate(src, 1):
            if ln.startswith(start):
                on = True
                continue
            if on and ln.startswith(stop):
                break
            if on and ln.strip() and not ln.strip().startswith(('#', '"""', ':', 'Args', 'Returns', 'Raises')):
                out.append(n)
                if start == 'def time_limit':
                    TL_LINES.append(n)
    return out


def draw_fit(seed, i, fixtures, tier):
    rs = base.run_seed(seed, i)
    rng = base.rng_for(rs)
    fx = rng.choice(fixtures)
    if rng.random() < 0.12:
        # hand-written library at a complexity real generation cannot reach within budget: the parameter table is wider
        # (5-6 columns) and only some ranks own functions with 5 parameters
        fx = dict(runname='synth11', compl=rng.choice([11, 11, 13]), lib=None, nuniq=8, basis=None)
    P = rng.choice(P_CHOICES)
    r = rng.random()
    if r < 0.6:
        like = dict(cls='Gauss', data_file='data.txt', run_name='run%d' % (rs % 7), data_dir='user')
    elif r < 0.85:
        like = dict(cls='Poisson', data_file='counts.txt', run_name='p%d' % (rs % 5), data_dir='user')
    elif r < 0.95 or fx['runname'] != 'core_maths':
        like = dict(cls='Mock', nz=320, yfracerr=rng.choice([0.1, 0.2]))
    else:
        like = dict(cls='CC')          # cosmic-chronometer likelihood: fixed run name and function set, in-package directories
    if like['cls'] == 'Mock' and fx['runname'] != 'core_maths' or fx['runname'].startswith('synth'):
        like['fn_set'] = fx['runname']
    opts = dict(test_all=dict(Niter_params=rng.choice([[2], [3], [2, 1]]), Nconv_params=[rng.choice([1, 2])],
                              log_opt=rng.random() < 0.3))
    if rng.random() < 0.1:
        # the value the docstrings call the default: Nconv <= 0 for parameter-free functions, so optimise_fun raises
        # inside the time-limited block and the row becomes nan
        opts['test_all']['Nconv_params'] = [-5, 20]
        opts['test_all']['Niter_params'] = [40, 60]
    have = {(f['runname'], f['compl']) for f in fixtures}
    if fx.get('lib') and all((fx['runname'], c) in have for c in range(1, fx['compl'])) and rng.random() < 0.3:
        # rank 0 writes previous_eqns_<n>.txt into the library directory, every rank reads it while fitting
        opts['test_all']['ignore_previous_eqns'] = True
    if rng.random() < 0.4:
        # the progress period of every stage (a documented argument): small values put the periodic code inside tiny shares
        for st in ('test_all', 'fisher', 'match', 'combine'):
            opts.setdefault(st, {})['print_frequency'] = rng.choice([1, 2, 3, 7])
    extra = {}
    weak = None
    if rng.random() < (0.5 if fx['runname'].startswith('synth') else 0.15):
        # weakly constraining data: the stored second derivatives are scaled down before the match stage
        weak = rng.choice([1e-3, 1e-6, 1e-10])
    if rng.random() < 0.15 and TIMED_LINES:
        # F3 in the fitting stage: the per-function time limit of test_all expires - before a chosen statement in every fit
        # (incl. the statements of time_limit itself), or at a statement / a call inside scipy in a few chosen fits
        c = rng.random()
        if c < 0.5:
            pl = {'*': ['line', rng.choice(TL_LINES if (TL_LINES and rng.random() < 0.5) else TIMED_LINES), rng.choice([1, 1, 2])]}
        elif c < 0.8:
            pl = {str(rng.randint(1, 8)): ['stmt', rng.randint(1, 60)] for _ in range(rng.randint(1, 3))}
        else:
            pl = {str(rng.randint(1, 8)): ['deep', rng.randint(1, 4000)] for _ in range(rng.randint(1, 2))}
        extra = dict(plan={str(r): dict(pl) for r in range(P)}, tick_modules=['esr.generation.simplifier', 'esr.fitting.test_all'])
    return dict(extra, weak_fisher=weak, runname=fx['runname'], compl=fx['compl'], lib_src=fx['lib'], like=like, opts=opts, P=P, seed=rs,
                policy=draw_policy(rng, P), eager=rng.choice([0.0, 0.2, 0.5, 0.8, 1.0]), root_copy=rng.random() < 0.25,
                data_seed=rs % 100003, npts=rng.randint(20, 40), npseed=rs % 9973, run_seed=rs, nuniq=fx['nuniq'], synth_seed=rs % 977)


def draw_tile(seed, i):
    rs = base.run_seed(seed, 500000 + i)
    rng = base.rng_for(rs)
    P = rng.choice([1, 2, 3, 4, 5, 6, 7, 8, 9, 11, 13, 16])
    Ns = set()
    for _ in range(8):
        c = rng.random()
        if c < 0.35:
            Ns.add(rng.choice([0, 1, max(P - 1, 0), P, P + 1]))
        elif c < 0.6:
            Ns.add(rng.randint(0, P))
        else:
            Ns.add(rng.randint(0, 6 * P + 3))
    return dict(Ns=sorted(Ns), P=P, seed=rs, policy=draw_policy(rng, P), eager=rng.choice([0.0, 0.5, 1.0]), run_seed=rs)


def main(tier, seed, budget):
    T = base.Timer()
    rep = base.Reporter(PID)
    quick = tier == 'quick'
    explore_s = budget or (150 if quick else 1500)
    TIMED_LINES[:] = timed_lines()
    fixroot = '%s/esrsim-fix-c14-%d' % (scratch_root(), os.getpid())
    stats = dict(fault_worlds=0, faults_fired=0, ipe_worlds=0, fit_worlds=0, tile_worlds=0, tile_cases=0, by_P={}, by_like={}, by_policy={}, events=0, rdigests=set(),
                 nontrivial=set(), P_gt_U=0, P_ge_11=0, rows_checked=0, cmp_runs=0, tile_pairs=set())
    samples = []
    selftest = {}
    try:
        with Pool(16, hashseed=0) as pool:
            # ---- fixture libraries from the working tree ----
            fx = fixture_configs(tier)
            jobs = [dict(fn=JOB_GEN, args=dict(runname=c['runname'], compl=c['compl'], basis=c['basis'], P=1, seed=0,
                                               policy={'kind': 'lowest'}, save_lib='%s/%s/compl_%d' % (fixroot, c['runname'], c['compl'])),
                         tag=i) for i, c in enumerate(fx)]
            fixtures = []
            for job, out in pool.imap(jobs, timeout=900):
                c = fx[job['tag']]
                if out[0] != 'ok' or out[1].get('violation') or out[1].get('sig'):
                    rep.harness_error('fixture %s/%d could not be generated: %s' % (c['runname'], c['compl'], str(out[1])[-300:]))
                    continue
                fixtures.append(dict(c, lib='%s/%s' % (fixroot, c['runname']), nuniq=out[1].get('nuniq')))
            fixtures.sort(key=lambda c: (c['runname'], c['compl']))
            if not fixtures:
                raise base.HarnessError('no fixture library')
            # ---- determinism self-test ----
            st = []
            for k in range(4):
                a = draw_fit(seed, 970000 + k, fixtures, tier)
                a['P'] = [2, 3, 5, 4][k]
                for rep_i in range(2):
                    st.append(dict(fn=JOB_FIT, args=a, tag=(k, rep_i)))
            got = {}
            for job, out in pool.imap(st, timeout=900):
                if out[0] == 'ok':
                    r = out[1]
                    got.setdefault(job['tag'][0], []).append((r['digest'], tuple(sorted((r.get('out_hashes') or {}).items())), repr((r['violation'] or {}).get('sig'))))
            bad = [k for k, v in got.items() if len(v) == 2 and v[0] != v[1]]
            selftest['same_seed_twice'] = dict(pairs=len(got), mismatches=len(bad))
            if bad:
                rep.harness_error('determinism self-test failed: %s' % bad)
            pending_min = []

            def handle(job, out):
                a = job['args']
                fn = job['fn']
                if out[0] != 'ok':
                    rep.harness_error('%s seed=%s: %s %s' % (fn, a.get('run_seed'), out[0], str(out[1])[-400:]))
                    return
                r = out[1]
                stats['events'] += r['steps']
                stats['by_P'][a['P']] = stats['by_P'].get(a['P'], 0) + 1
                stats['by_policy'][a['policy']['kind']] = stats['by_policy'].get(a['policy']['kind'], 0) + 1
                if fn == JOB_TILE:
                    stats['tile_worlds'] += 1
                    stats['tile_cases'] += r.get('ncases', 0)
                    for N in a['Ns']:
                        stats['tile_pairs'].add((N, a['P']))
                    if a['P'] > 1:
                        stats['nontrivial'].add(('tile', a['P'], tuple(a['Ns']), r['rdigest']))
                else:
                    stats['fit_worlds'] += 1
                    stats['fault_worlds'] += int(bool(a.get('plan')))
                    stats['faults_fired'] += sum(len((rk.get('clock') or {}).get('fired') or []) for rk in r['ranks'])
                    stats['ipe_worlds'] += int(bool((a.get('opts') or {}).get('test_all', {}).get('ignore_previous_eqns')))
                    stats['weak_worlds'] = stats.get('weak_worlds', 0) + int(bool(a.get('weak_fisher')))
                    stats['match_rows'] = stats.get('match_rows', 0) + int(((r.get('stats') or {}).get('match_rows_checked')) or 0)
                    stats['skipped_rows'] = stats.get('skipped_rows', 0) + int(((r.get('stats') or {}).get('skipped_rows_checked')) or 0)
                    stats['ident_rows'] = stats.get('ident_rows', 0) + int(((r.get('stats') or {}).get('identity_variants_checked')) or 0)
                    stats['derivs_rows'] = stats.get('derivs_rows', 0) + int(((r.get('stats') or {}).get('derivs_rows_checked')) or 0)
                    stats['by_like'][a['like']['cls']] = stats['by_like'].get(a['like']['cls'], 0) + 1
                    stats['P_gt_U'] += int(a['P'] > (a.get('nuniq') or 0))
                    stats['P_ge_11'] += int(a['P'] >= 11)
                    st_ = r.get('stats') or {}
                    stats['rows_checked'] += sum(st_.get(k, 0) for k in ('nll_rows_checked', 'codelen_rows_checked', 'final_rows_checked'))
                    stats['cmp_runs'] += int('cmp_files' in st_)
                    if a['P'] > 1:
                        stats['nontrivial'].add(('fit', a['runname'], a['compl'], a['P'], r['rdigest']))
                ss = sigs_of(a, r)
                if len(samples) < 5 and a['P'] > 1 and (fn == JOB_FIT or len(samples) < 2):
                    samples.append(dict(kind='fit' if fn == JOB_FIT else 'tile', P=a['P'], policy=a['policy'], eager=a['eager'],
                                        run_seed=a['run_seed'], steps=r['steps'], decisions_prefix=r['choices'][:10],
                                        detail={k: a[k] for k in ('runname', 'compl', 'like', 'opts', 'Ns') if k in a}, verdict=sorted(ss) or 'ok'))
                for s in ss:
                    if rep.add(s, dict(run_seed=a['run_seed'], job=dict(fn=fn, args=a), violation=r.get('violation'), probs=r.get('probs'))):
                        pending_min.append((s, fn, a, r))
            # ---- layer 1 ----
            tj = [dict(fn=JOB_TILE, args=draw_tile(seed, i), timeout=600) for i in range(24 if quick else 96)]
            if not quick:   # complete sweep N <= 64, P <= 16
                for P in range(1, 17):
                    tj.append(dict(fn=JOB_TILE, args=dict(Ns=list(range(0, 65)), P=P, seed=P, policy={'kind': 'uniform'}, eager=0.5,
                                                          run_seed=base.run_seed(seed, 600000 + P)), timeout=900))
            for job, out in pool.imap(tj, timeout=900):
                handle(job, out)
            # ---- layer 2 ----
            deadline = time.time() + explore_s

            def gen():
                i = 0
                while True:
                    yield dict(fn=JOB_FIT, args=draw_fit(seed, i, fixtures, tier), timeout=1200)
                    i += 1
            for job, out in pool.imap(gen(), timeout=1200, deadline=deadline):
                handle(job, out)
            for s, fn, a, r in pending_min[:5]:
                ma, mr, notes, okrep = minimise(pool, fn, a, r, s, sigs_of, budget=20 if quick else 40, timeout=1200)
                ent = rep.violations.get(s) or rep.known_hits.get(s)
                if ent is not None:
                    ent['record'] = dict(run_seed=a['run_seed'], hashseed=0, job=dict(fn=fn, args=ma), minimisation=notes,
                                         violation=mr.get('violation'), probs=mr.get('probs'), digest=mr.get('digest'),
                                         reproducible=okrep, note='lib_src is a fixture generated at check time; ./check replay regenerates it')
                    if not okrep:
                        rep.harness_error('violation %s did not replay' % s)
    finally:
        shutil.rmtree(fixroot, ignore_errors=True)
    wall = T()
    nw = stats['fit_worlds'] + stats['tile_worlds']
    cov = dict(
        evaluations=nw, distinct_nontrivial=len(stats['nontrivial']),
        rule='one evaluation = one simulated world: either a TILE world (8 values of N for one P; get_functions in both modes and split_idx on '
             'every rank) or a full fitting pipeline (likelihood construction on every rank from a fresh output directory, test_all, Fisher, match, '
             'combine_DL) on a fixture library generated from the working tree. Non-trivial = P >= 2; distinct by (kind, configuration, P, reduced '
             'interleaving digest).',
        samples=samples, fit_worlds=stats['fit_worlds'], tile_worlds=stats['tile_worlds'], tile_cases=stats['tile_cases'],
        tile_distinct_N_P_pairs=len(stats['tile_pairs']), tile_sweep_complete_N_le_64_P_le_16=not quick,
        worlds_by_P=stats['by_P'], worlds_by_policy=stats['by_policy'], worlds_by_likelihood=stats['by_like'],
        fit_worlds_with_more_ranks_than_unique_functions=stats['P_gt_U'], fit_worlds_with_P_ge_11=stats['P_ge_11'], fit_worlds_with_ignore_previous_eqns=stats['ipe_worlds'], fit_worlds_with_weakly_constraining_second_derivatives=stats.get('weak_worlds', 0), match_rows_recomputed=stats.get('match_rows', 0), identity_variant_rows_recomputed_across_stages=stats.get('ident_rows', 0), rows_of_repeated_lower_complexity_functions_checked_skipped=stats.get('skipped_rows', 0), second_derivative_rows_structure_checked=stats.get('derivs_rows', 0), fit_worlds_with_timeouts_in_test_all=stats['fault_worlds'], timeouts_fired_in_fitting=stats['faults_fired'],
        output_rows_recomputed=stats['rows_checked'], one_rank_reruns_compared=stats['cmp_runs'],
        seam_events=stats['events'], runs_per_hour=round(3600.0 * nw / max(wall, 1e-9)),
        fault_kinds={'F1 interleaving choice': stats['events'], 'F5 rank count': nw, 'F3 timer expiry in test_all (fired)': stats['faults_fired']}, selftest=selftest,
        components=base.COMPONENTS, harness_errors=len(rep.harness), repo_head=base.repo_head(), exhaustive=False)
    rc = rep.finish()
    base.write_evidence(PID, tier, seed, 'exploration', cov, wall, len(rep.violations),
                        ['fits use per-rank random starts: equality of negloglike with another rank count is not demanded, only reproducibility of each row',
                         'likelihood values are recomputed with an independent 30-digit evaluator to rel. 1e-3 (files carry 8 digits)',
                         'PanthLikelihood cannot be constructed in this snapshot (emptied covariance file); CCLikelihood/MockLikelihood use in-package output dirs'])
    return rc
