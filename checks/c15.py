"""C15 - a timed-out simplification step is skipped cleanly.

Fault injection: virtual SIGALRM expiry at a chosen statement (AST tick) or at a chosen Python
call inside sympy, in chosen time-limited blocks of sympy_simplify / expand_or_factor /
check_results, singly and in combination, with P in {1,2,3}.  Oracle, unrelaxed: generation
completes on every rank (LIVE) and the library satisfies LIB-SOUND items 1-4."""
import os
import time

from esrsim.common import REPO
from esrsim.pool import Pool
from . import base, configs
from .minimise import minimise

PID = 'C15'
JOB = 'checks.jobs:gen_world'
TICK = ['esr.generation.simplifier']


_STEP_IDS = {}


def step_ids():
    """(function, line of 'with time_limit') -> 'function#k' (k-th time-limited step of that function, in source order):
    an identity of a timed step that survives line shifts."""
    if _STEP_IDS:
        return _STEP_IDS
    func, count = None, {}
    for n, ln in enumerate(source_lines(), 1):
        st = ln.strip()
        if ln.startswith('def '):
            func = ln[4:].split('(')[0]
        if st.startswith('with time_limit(') and func:
            count[func] = count.get(func, 0) + 1
            _STEP_IDS[(func, n)] = '%s#%d' % (func, count[func])
    _STEP_IDS.setdefault(('', 0), '?')
    return _STEP_IDS


def sigs_of(args, r):
    s = set()
    if r is None:
        return s
    if r.get('violation'):
        s.add(r['violation']['sig'])
    for rk in r.get('ranks') or []:
        for u in (rk.get('clock') or {}).get('unarmed') or []:
            # the body of a `with time_limit(...)` was entered with no timer armed: that step can no longer be interrupted, so
            # "generation still completes" rests on luck (in a real run a slow step would then run on unboundedly)
            s.add('timed-step-without-timer:%s' % u[0])
    if r.get('sig'):
        # an unsound library after timeouts: the signature names the timed steps that were interrupted, so that a listed
        # finding (known_findings.json) cannot hide a different route to the same symptom
        ids = step_ids()
        steps = set()
        for rk in r.get('ranks') or []:
            for f in (rk.get('clock') or {}).get('fired') or []:
                site = f[5]
                if site:
                    steps.add(ids.get((site[0], site[1]), '%s:?' % site[0]))
        suffix = ('@steps:' + ','.join(sorted(steps)) if steps else '')
        s.add(r['sig'] + suffix)
        for ks in r.get('kind_sigs') or []:
            s.add(ks + suffix)          # every kind of problem in the library, not only the first one
    return s


def base_args(cfg, P, rs):
    return dict(runname=cfg['runname'], compl=cfg['compl'], basis=cfg['basis'], P=P, seed=rs, policy={'kind': 'lowest'},
                eager=0.5, tick_modules=TICK, run_seed=rs, nfun=cfg['nfun'], keep_choices=True)


def config_list(seed, tier):
    rng = base.rng_for(seed, 'c15-configs')
    S = configs.SHIPPED
    out = []

    def add(name, n):
        out.append(dict(runname=name, basis=None, compl=n, nfun=configs.nfun(S[name], n)))
    if tier == 'quick':
        for name, n in (('core_maths', 3), ('core_maths', 4), ('osc_maths', 3), ('base_e_maths', 3), ('ext_maths', 2), ('core_maths', 5)):
            add(name, n)
        nsub, cap = 3, 120
    else:
        for name, n in (('core_maths', 3), ('core_maths', 4), ('core_maths', 5), ('osc_maths', 3), ('osc_maths', 4),
                        ('base_e_maths', 3), ('base_e_maths', 4), ('ext_maths', 3), ('base10_maths', 3), ('keep_duplicates', 3), ('ext_maths', 2),
                        ('keep_duplicates', 2), ('core_maths', 2)):
            add(name, n)
        nsub, cap = 10, 400
    subs, _ = configs.pool(rng, n_sub=nsub, max_n=5, cap=cap, shipped=False, min_n=2)
    out += [c for c in subs if c['compl'] >= 2]
    # "deep and narrow": one unary and one binary operator at complexity 6 (122 functions), product-only at complexity 7 (80):
    # the cheapest libraries with three-parameter functions that do NOT collapse to one constant (a1*a2*sin(a0)), i.e. where a
    # function passes through several parameter pairs of one simplification call and keeps two parameters afterwards
    dn = [[["x", "a"], ["sin"], ["*"]]]
    for _ in range(1 if tier == 'quick' else 5):
        dn.append([["x", "a"], [rng.choice(configs.UNARY)], [rng.choice(["*", "+", "*", "/"])]])
    for b in dn:
        if not any(c['basis'] == b for c in out):
            out.append(dict(runname=configs.basis_name(b), basis=b, compl=6, nfun=configs.nfun(b, 6), deep_narrow=True))
    b7 = [["x", "a"], [], ["*"]]
    out.append(dict(runname=configs.basis_name(b7), basis=b7, compl=7, nfun=configs.nfun(b7, 7), deep_narrow=True))
    return out


def draw_plan(rng, profiles):
    """profiles: {rank: [[block, nticks, ncalls, classid, site], ...]} -> plan {rank: {block: [gran, t]}} + descriptors."""
    nf = 1 if rng.random() < 0.6 else rng.choice([2, 2, 3, 4])
    plan, desc = {}, []
    ranks = sorted(profiles)
    if rng.random() < 0.15:
        # "this statement is slow every time": the timeout strikes before the same source line in every block (or in a
        # random half of the blocks) that reaches it
        rk = rng.choice(ranks)
        prof = profiles[rk]
        if prof:
            by_site = {}
            for ent in prof:
                by_site.setdefault(str(ent[4]), set()).update(ent[5])
            site = rng.choice(sorted(by_site))
            L = rng.choice(sorted(by_site[site]))
            occ = rng.choice([1, 1, 1, 2])
            r_ = rng.random()
            if r_ < 0.3 and len(by_site) > 1:
                # two slow statements in different time-limited steps (e.g. one in sympy_simplify, one in check_results):
                # "any subset of the time-limited steps" includes subsets that hit the same function in both
                site2 = rng.choice(sorted(set(by_site) - {site}))
                L2 = rng.choice(sorted(by_site[site2]))
                plan[str(rk)] = {'*': ['lines', [[L, occ], [L2, 1]]]}
                desc.append((site2, 'line', L2, 1))
            elif r_ < 0.65:
                plan[str(rk)] = {'*': ['line', L, occ]}
            else:
                blocks = [e[0] for e in prof if L in e[5]]
                plan[str(rk)] = {str(b): ['line', L, occ] for b in blocks if rng.random() < 0.5}
            desc.append((site, 'line', L, occ))
            return plan, desc
    if rng.random() < 0.25:
        # "repeat" plan: the same statement tick in several / all blocks of one path class - i.e. the same code path
        # interrupted at the same place again and again (the same function in successive rounds, and its look-alikes)
        rk = rng.choice(ranks)
        prof = profiles[rk]
        if prof:
            classes = {}
            for ent in prof:
                classes.setdefault(ent[3], []).append(ent)
            multi = sorted(c for c, v in classes.items() if len(v) >= 2) or sorted(classes)
            # site first (the rarely entered blocks must not be drowned), then class within the site
            by_site = {}
            for c in multi:
                by_site.setdefault(str(classes[c][0][4]), []).append(c)
            cid = rng.choice(by_site[rng.choice(sorted(by_site))])
            ents = sorted(classes[cid])
            nt = max(1, min(e[1] for e in ents))
            t = rng.randint(1, nt)
            mode = rng.choice(['all', 'all', 'pair', 'stride'])
            if mode == 'pair':
                i0 = rng.randrange(len(ents))
                pick = ents[i0:i0 + 2]
            elif mode == 'stride':
                k = rng.randint(2, 4)
                pick = ents[rng.randrange(k)::k]
            else:
                pick = ents
            for b, nt_, nc, _, site in [e[:5] for e in pick[:400]]:
                plan.setdefault(str(rk), {})[str(b)] = ['stmt', t]
            desc.append((cid, 'repeat-' + mode, t, tuple(ents[0][4]) if ents[0][4] else None))
            return plan, desc
    for _ in range(nf):
        rk = rng.choice(ranks)
        prof = profiles[rk]
        if not prof:
            continue
        classes = {}
        for ent in prof:
            classes.setdefault(ent[3], []).append(ent)
        if rng.random() < 0.3:
            by_site = {}
            for c in classes:
                by_site.setdefault(str(classes[c][0][4]), []).append(c)
            cid = rng.choice(sorted(by_site[rng.choice(sorted(by_site))]))
        else:
            cid = rng.choice(sorted(classes))
        b, nt, nc, _, site = rng.choice(classes[cid])[:5]
        if rng.random() < 0.3 and nc > 0:
            gran, t = 'deep', rng.randint(1, nc)
        else:
            gran, t = 'stmt', rng.randint(1, max(nt, 1))
        plan.setdefault(str(rk), {})[str(b)] = [gran, t]
        desc.append((cid, gran, t, tuple(site) if site else None))
    return plan, desc


def source_lines():
    try:
        with open(os.path.join(os.environ.get('ESRSIM_REPO', REPO), 'esr/generation/simplifier.py')) as f:
            return f.read().splitlines()
    except Exception:
        return []


PROBES = {
    'fired_before_string_update_after_map_recorded': lambda t: t.startswith('str_fun[i] = esrp.doprint') or t.startswith('if expand_fun:'),
    'fired_between_paired_appends': lambda t: t.startswith('ref_indices.append') or t.startswith('new_inv_subs.append') or t.startswith('change_vals.append'),
    'fired_inside_time_limit_itself': lambda t: t.startswith('signal.alarm(0)') or t.startswith('yield') or t.startswith('try:'),
    'fired_inside_inner_try': lambda t: t.startswith('f1 = sym_fun[i].subs') or t.startswith('if f0.equals') or t.startswith('s = {expr[1]'),
}


def main(tier, seed, budget):
    T = base.Timer()
    rep = base.Reporter(PID)
    quick = tier == 'quick'
    explore_s = budget or (150 if quick else 1500)
    cfgs = config_list(seed, tier)
    src = source_lines()
    stats = dict(worlds=0, profile_worlds=0, faults_planned=0, faults_fired=0, armed_not_fired=0, by_gran={}, by_site={},
                 by_P={}, multi_fault_worlds=0, blocks_opened=0, covered=set(), worlds_nontrivial=set(), probes={k: 0 for k in PROBES}, timeouts_handled_msgs=0,
                 events=0, ticks_total=0, blocks_total=0, classes_total=0, sound_functions=0, ref_failed=[], directed_known_finding_worlds=0, sweep=[], repeat_sweep=[], line_sweep=[], line_pair_sweep=[], block_sweep=[])
    samples = []
    selftest = {}
    with Pool(16, hashseed=0) as pool:
        # ---- fault-free profiles for every (config, P) ----
        prof_jobs = []
        for c in cfgs:
            Ps = (1, 2) if quick else (1, 2, 3)
            if quick and c['nfun'] > 400:
                Ps = (1,)
            if c['nfun'] <= 70:
                # small libraries also with many ranks: tiny and empty shares, functions of one class spread over all ranks
                Ps = Ps + ((5,) if quick else (5, 8, 11))
            for P in Ps:
                a = base_args(c, P, 0)
                a.update(profile=True, profile_calls=True)
                prof_jobs.append(dict(fn=JOB, args=a, timeout=1500))
        profiles = {}
        prof_steps = {}
        for job, out in pool.imap(prof_jobs, timeout=1500):
            a = job['args']
            stats['profile_worlds'] += 1
            key = (a['runname'], a['compl'], a['P'])
            if out[0] != 'ok':
                rep.harness_error('profile world %s: %s %s' % (key, out[0], str(out[1])[-300:]))
                continue
            r = out[1]
            if sigs_of(a, r):
                stats['ref_failed'].append([list(key), sorted(sigs_of(a, r))])   # fault-free run fails: not a timeout matter
                if a['basis'] is None:
                    for s_ in sigs_of(a, r):
                        rep.add('fault-free:' + s_, dict(run_seed=0, job=dict(fn=JOB, args=a), violation=r.get('violation'), probs=r.get('probs')))
                continue
            profiles[key] = {i: rk['clock']['profile'] for i, rk in enumerate(r['ranks'])}
            prof_steps[key] = r['steps']
            if a['P'] == 1:
                pr = profiles[key][0]
                stats['blocks_total'] += len(pr)
                stats['ticks_total'] += sum(p[1] for p in pr)
                stats['classes_total'] += len({p[3] for p in pr})
        keys = sorted(profiles)
        if not keys:
            rep.harness_error('no fault-free profile succeeded')
            keys = []
        cfg_by = {(c['runname'], c['compl']): c for c in cfgs}

        def mk_job(i):
            rs = base.run_seed(seed, i)
            rng = base.rng_for(rs)
            w = [(1.0 if k[2] == 1 else 0.35 if k[2] <= 3 else 0.2) / (1 + cfg_by[k[:2]]['nfun'] / 120.0) for k in keys]
            key = rng.choices(keys, w)[0]
            c = cfg_by[key[:2]]
            a = base_args(c, key[2], rs)
            if key[2] > 1:
                a['policy'] = {'kind': rng.choice(['uniform', 'pct', 'lowest'])}
                a['eager'] = rng.choice([0.0, 0.5, 1.0])
            plan, desc = draw_plan(rng, profiles[key])
            a['plan'] = plan
            a['max_steps'] = 40 * prof_steps[key] + 5000      # bounded liveness: "generation still completes"
            a['_desc'] = [list(map(str, d)) for d in desc]
            return dict(fn=JOB, args=a, timeout=1500)

        def account(a, r):
            stats['worlds'] += 1
            stats['by_P'][a['P']] = stats['by_P'].get(a['P'], 0) + 1
            stats['events'] += r['steps']
            nplanned = sum(len(v) for v in (a.get('plan') or {}).values())
            stats['faults_planned'] += nplanned
            if nplanned > 1:
                stats['multi_fault_worlds'] += 1
            if r.get('stats'):
                stats['sound_functions'] += r['stats'].get('functions', 0)
            wkey = []
            for rki, rk in enumerate(r['ranks']):
                clk = rk.get('clock') or {}
                stats['blocks_opened'] += clk.get('blocks') or 0
                wkey += [(rki, f[0], f[1], f[2]) for f in clk.get('fired') or []]
                stats['armed_not_fired'] += len(clk.get('armed_not_fired') or [])
                for f in clk.get('fired') or []:
                    b, gran, t, func, where, site = f
                    stats['faults_fired'] += 1
                    stats['by_gran'][gran] = stats['by_gran'].get(gran, 0) + 1
                    if any(e and e[0] == 'lines' for d in (a.get('plan') or {}).values() for e in d.values()):
                        stats['by_gran']['lines2'] = stats['by_gran'].get('lines2', 0) + 1
                    sk = '%s:%s' % tuple(site) if site else 'none'
                    stats['by_site'][sk] = stats['by_site'].get(sk, 0) + 1
                    stats['covered'].add((a['runname'], a['compl'], a['P'], rki, b, gran, t))
                    if gran == 'stmt' and isinstance(where, int) and 0 < where <= len(src):
                        text = src[where - 1].strip()
                        for name, pred in PROBES.items():
                            if pred(text):
                                stats['probes'][name] += 1

            if wkey:
                stats['worlds_nontrivial'].add((a['runname'], a['compl'], a['P'], tuple(sorted(wkey))))

        def handle(job, out, pending_min):
            a = job['args']
            if out[0] != 'ok':
                rep.harness_error('world %s plan=%s: %s %s' % ((a['runname'], a['compl'], a['P']), a.get('plan'), out[0], str(out[1])[-400:]))
                return
            r = out[1]
            account(a, r)
            ss = sigs_of(a, r)
            if len(samples) < 5 and (ss or len(samples) < 3):
                samples.append(dict(config=[a['runname'], a['compl']], P=a['P'], plan=a.get('plan'),
                                    fired=[rk['clock']['fired'] for rk in r['ranks'] if rk.get('clock')], verdict=sorted(ss) or 'ok',
                                    run_seed=a['run_seed']))
            for s in ss:
                if rep.add(s, dict(run_seed=a['run_seed'], job=dict(fn=JOB, args=a), violation=r.get('violation'), probs=r.get('probs'))):
                    pending_min.append((s, a, r))

        pending_min = []
        # ---- determinism self-test on faulted worlds ----
        if keys:
            st = []
            for k in range(6):
                j = mk_job(950000 + k)
                for rep_i in range(2):
                    st.append(dict(j, tag=(k, rep_i)))
            got = {}
            for job, out in pool.imap(st, timeout=900):
                if out[0] == 'ok':
                    r = out[1]
                    got.setdefault(job['tag'][0], []).append((r['digest'], tuple(sorted(r['hashes'].items())), repr((r['violation'] or {}).get('sig')),
                                                              repr([rk['clock']['fired'] for rk in r['ranks'] if rk.get('clock')])))
            bad = [k for k, v in got.items() if len(v) == 2 and v[0] != v[1]]
            selftest['same_seed_twice_with_faults'] = dict(pairs=len(got), mismatches=len(bad))
            if bad:
                rep.harness_error('determinism self-test (faulted worlds) failed: %s' % bad)
        def run_sweeps(sweep_key, single_cap):
            # ---- exhaustive single-statement-fault sweep of the smallest configuration ----
            if sweep_key in profiles:
                pr = profiles[sweep_key][0]
                pts = [(e[0], t) for e in pr for t in range(1, e[1] + 1)]
                if single_cap and len(pts) > single_cap:
                    rng = base.rng_for(seed, 'c15-sweep', sweep_key)
                    pts = sorted(rng.sample(pts, single_cap))
                sj = []
                for b, t in pts:
                    a = base_args(cfg_by[sweep_key[:2]], 1, base.run_seed(seed, 800000 + b * 1000 + t))
                    a['plan'] = {'0': {str(b): ['stmt', t]}}
                    sj.append(dict(fn=JOB, args=a, timeout=600))
                n0 = stats['worlds']
                for job, out in pool.imap(sj, timeout=600):
                    handle(job, out, pending_min)
                stats['sweep'].append(dict(config=list(sweep_key), points_total=sum(p[1] for p in pr), points_run=stats['worlds'] - n0,
                                           complete=stats['worlds'] - n0 == sum(p[1] for p in pr)))
            # ---- "same path interrupted at the same place in every round": complete for the smallest configuration ----
            if sweep_key in profiles:
                pr = profiles[sweep_key][0]
                classes = {}
                for ent in pr:
                    classes.setdefault(ent[3], []).append(ent)
                rj = []
                for cid in sorted(classes):
                    ents = sorted(classes[cid])
                    if len(ents) < 2:
                        continue
                    for t in range(1, min(e[1] for e in ents) + 1):
                        a = base_args(cfg_by[sweep_key[:2]], 1, base.run_seed(seed, 700000 + len(rj)))
                        a['plan'] = {'0': {str(e[0]): ['stmt', t] for e in ents}}
                        rj.append(dict(fn=JOB, args=a, timeout=600))
                if quick and len(rj) > 400:
                    rng = base.rng_for(seed, 'c15-repeat-sweep')
                    rj = rng.sample(rj, 400)
                n0 = stats['worlds']
                for job, out in pool.imap(rj, timeout=600):
                    handle(job, out, pending_min)
                stats['repeat_sweep'].append(dict(config=list(sweep_key), plans_run=stats['worlds'] - n0, complete=not (quick and len(rj) >= 400)))
            # ---- "one statement is slow every time": every source line of the smallest configuration ----
            if sweep_key in profiles:
                pr = profiles[sweep_key][0]
                lines = sorted({L for e in pr for L in e[5]})
                lj = []
                for L in lines:
                    for occ in (1, 2):
                        a = base_args(cfg_by[sweep_key[:2]], 1, base.run_seed(seed, 600000 + L * 10 + occ))
                        a['plan'] = {'0': {'*': ['line', L, occ]}}
                        lj.append(dict(fn=JOB, args=a, timeout=600))
                    # the same slow statement on every rank of a 2- and a 3-rank world (stale maps must then be repaired
                    # by check_results across its shuffled, scattered slices)
                    for P in (2, 3):
                        if (sweep_key[0], sweep_key[1], P) in profiles:
                            a = base_args(cfg_by[sweep_key[:2]], P, base.run_seed(seed, 600000 + L * 10 + 5 + P))
                            a['plan'] = {str(r): {'*': ['line', L, 1]} for r in range(P)}
                            lj.append(dict(fn=JOB, args=a, timeout=600))
                n0 = stats['worlds']
                for job, out in pool.imap(lj, timeout=600):
                    handle(job, out, pending_min)
                stats['line_sweep'].append(dict(config=list(sweep_key), source_lines=len(lines), plans_run=stats['worlds'] - n0, complete=True))
            # ---- two slow statements: every line of the simplification steps x lines of the result check (the step that is
            #      meant to catch what the interrupted simplification left behind is itself interrupted, for the same function)
            if sweep_key in profiles:
                pr = profiles[sweep_key][0]
                chk = sorted({L for e in pr if e[4] and e[4][0] == 'check_results' for L in e[5]})
                oth = sorted({L for e in pr if not (e[4] and e[4][0] == 'check_results') for L in e[5]})
                if quick:
                    chk = chk[:1]        # the first statement of the timed block of check_results: the check never starts
                pj = []
                for L2 in chk:
                    for L in oth:
                        a = base_args(cfg_by[sweep_key[:2]], 1, base.run_seed(seed, 300000 + L * 40 + len(pj) % 40))
                        a['plan'] = {'0': {'*': ['lines', [[L, 1], [L2, 1]]]}}
                        pj.append(dict(fn=JOB, args=a, timeout=600))
                n0 = stats['worlds']
                for job, out in pool.imap(pj, timeout=600):
                    handle(job, out, pending_min)
                stats['line_pair_sweep'].append(dict(config=list(sweep_key), simplification_lines=len(oth), check_results_lines=len(chk),
                                                     plans_run=stats['worlds'] - n0, complete=not quick))
        def rare_line_sweep(key, base_key, variants):
            """Source lines reached inside timed blocks of `key` but never in the smallest configuration (e.g. the
            permutation search, which needs >= 2 parameters and a second round): fire before such a line in a random half of
            the blocks that reach it - so that some proposals are interrupted and later ones are recorded."""
            if key not in profiles or base_key not in profiles:
                return
            pr = profiles[key][0]
            seen = {L for e in profiles[base_key][0] for L in e[5]}
            lines = sorted({L for e in pr for L in e[5]} - seen)
            lj = []
            for L in lines:
                blocks = [e[0] for e in pr if L in e[5]]
                for v in range(variants):
                    rng = base.rng_for(seed, 'c15-rare', key, L, v)
                    a = base_args(cfg_by[key[:2]], key[2], base.run_seed(seed, 500000 + L * 10 + v))
                    a['plan'] = {'0': {str(b): ['line', L, 1] for b in blocks if rng.random() < 0.5}}
                    a['max_steps'] = 40 * prof_steps[key] + 5000
                    lj.append(dict(fn=JOB, args=a, timeout=900))
            n0 = stats['worlds']
            for job, out in pool.imap(lj, timeout=900):
                handle(job, out, pending_min)
            stats['line_sweep'].append(dict(config=list(key), kind='lines not reached by the smallest configuration, random half of the blocks',
                                            source_lines=len(lines), plans_run=stats['worlds'] - n0, complete=False))
        sweeps = [(('core_maths', 3, 1), 320 if quick else 0)]
        if not quick:
            sweeps += [(('core_maths', 4, 1), 0), (('osc_maths', 3, 1), 600), (('base_e_maths', 3, 1), 600)]
        for sk, cap in sweeps:
            run_sweeps(sk, cap)
        # every source line, all blocks, on the next larger configuration as well (first arrival only)
        for key in [('core_maths', 4, 1)] + ([] if quick else [('core_maths', 5, 1), ('osc_maths', 4, 1)]):
            if key in profiles:
                pr = profiles[key][0]
                lj = []
                for L in sorted({L for e in pr for L in e[5]}):
                    a = base_args(cfg_by[key[:2]], 1, base.run_seed(seed, 550000 + L))
                    a['plan'] = {'0': {'*': ['line', L, 1]}}
                    a['max_steps'] = 40 * prof_steps[key] + 5000
                    lj.append(dict(fn=JOB, args=a, timeout=900))
                n0 = stats['worlds']
                for job, out in pool.imap(lj, timeout=900):
                    handle(job, out, pending_min)
                stats['line_sweep'].append(dict(config=list(key), source_lines=len(lj), plans_run=stats['worlds'] - n0, complete=True, occurrences=[1]))
        def block_sweep(key, cap):
            """One fault per time-limited block that did more than the trivial path of its step (the function really entered
            the step), at a seeded statement of the block: systematic over FUNCTIONS x STEPS, where the sampled plans are
            systematic over code paths."""
            if key not in profiles:
                return
            pr = profiles[key][0]
            least = {}
            for e in pr:
                k_ = str(e[4])
                least[k_] = min(least.get(k_, 10 ** 9), e[1])
            cands = [e for e in pr if e[1] > least[str(e[4])]]
            rng = base.rng_for(seed, 'c15-block-sweep', key)
            total = len(cands)
            if cap and len(cands) > cap:
                cands = sorted(rng.sample(cands, cap))
            bj = []
            for e in cands:
                a = base_args(cfg_by[key[:2]], 1, base.run_seed(seed, 350000 + e[0]))
                a['plan'] = {'0': {str(e[0]): ['stmt', rng.randint(1, max(1, e[1]))]}}
                a['max_steps'] = 40 * prof_steps[key] + 5000
                bj.append(dict(fn=JOB, args=a, timeout=900))
            n0 = stats['worlds']
            for job, out in pool.imap(bj, timeout=900):
                handle(job, out, pending_min)
            stats['block_sweep'].append(dict(config=list(key), blocks_beyond_the_trivial_path=total, worlds_run=stats['worlds'] - n0,
                                                            complete=stats['worlds'] - n0 == total))
        for c_ in cfgs:
            if c_.get('deep_narrow'):
                block_sweep((c_['runname'], c_['compl'], 1), 160 if quick else 1500)
        rare_line_sweep(('core_maths', 5, 1), ('core_maths', 3, 1), 2 if quick else 6)
        rare_line_sweep(('core_maths', 4, 1), ('core_maths', 3, 1), 2 if quick else 6)
        # ---- directed: the parameter-renumbering step of every function times out (known finding, see known_findings.json):
        #      needs functions with >= 3 parameters whose two lowest merge - the no-unary basis at complexity 7
        Lre = [n for n, ln in enumerate(src, 1) if ln.strip() == 'vars = list(sym_fun[i].free_symbols)']
        if Lre:
            b7 = [["x", "a"], [], ["+", "*"]]
            c7 = dict(runname=configs.basis_name(b7), basis=b7, compl=7, nfun=configs.nfun(b7, 7))
            dj = []
            for v, L in enumerate([Lre[0], Lre[0] + 3] if not quick else [Lre[0]]):
                a = base_args(c7, 1, base.run_seed(seed, 450000 + v))
                a['plan'] = {'0': {'*': ['line', L, 1]}}
                dj.append(dict(fn=JOB, args=a, timeout=1500))
            for job, out in pool.imap(dj, timeout=1500):
                handle(job, out, pending_min)
            stats['directed_known_finding_worlds'] = len(dj)
        # ---- seeded sampling of fault plans ----
        if keys:
            deadline = time.time() + explore_s

            def gen():
                i = 0
                while True:
                    yield mk_job(i)
                    i += 1
            for job, out in pool.imap(gen(), timeout=1500, deadline=deadline):
                handle(job, out, pending_min)
        for s, a, r in pending_min[:6]:
            a = {k: v for k, v in a.items() if k != '_desc'}
            ma, mr, notes, okrep = minimise(pool, JOB, a, r, s, sigs_of, budget=20 if quick else 40, timeout=1500)
            ent = rep.violations.get(s) or rep.known_hits.get(s)
            if ent is not None:
                ent['record'] = dict(run_seed=a['run_seed'], hashseed=0, job=dict(fn=JOB, args=ma), minimisation=notes,
                                     violation=mr.get('violation'), probs=mr.get('probs'), digest=mr.get('digest'),
                                     fired=[rk['clock']['fired'] for rk in mr['ranks'] if rk.get('clock')], reproducible=okrep)
                if not okrep:
                    rep.harness_error('violation %s did not replay' % s)
    wall = T()
    cov = dict(
        evaluations=stats['worlds'] + stats['profile_worlds'],
        distinct_nontrivial=len(stats['worlds_nontrivial']), distinct_fault_points_fired=len(stats['covered']),
        rule='one evaluation = one simulated generation world with a fault plan (1 fault in 60% of plans, 2-4 otherwise; statement '
             'granularity 70%, call-inside-sympy granularity 30%; blocks drawn uniformly over path classes of the fault-free profile, then over '
             'blocks, then over ticks). Non-trivial = at least one timer actually fired; distinct = distinct (configuration, P, set of fired '
             '(rank, block ordinal, granularity, tick)); distinct_fault_points_fired counts the individual fault points.',
        samples=samples, configurations=[[c['runname'], c['compl'], c['nfun']] for c in cfgs], reference_failed=stats['ref_failed'],
        fault_free_profile=dict(blocks=stats['blocks_total'], statement_ticks=stats['ticks_total'], path_classes=stats['classes_total']),
        faults_planned=stats['faults_planned'], faults_fired=stats['faults_fired'], armed_not_fired=stats['armed_not_fired'],
        fired_by_granularity=stats['by_gran'], fired_by_call_site=stats['by_site'], worlds_by_P=stats['by_P'],
        multi_fault_worlds=stats['multi_fault_worlds'], directed_known_finding_worlds=stats['directed_known_finding_worlds'], probes=stats['probes'], single_fault_sweep=stats['sweep'], same_path_every_round_sweep=stats['repeat_sweep'], slow_statement_sweep=stats['line_sweep'], two_slow_statements_sweep=stats['line_pair_sweep'], one_fault_per_nontrivial_block_sweep=stats['block_sweep'],
        seam_events=stats['events'], functions_checked_by_libsound=stats['sound_functions'],
        simulated_time=dict(seam_events=stats['events'], timed_blocks_opened=stats['blocks_opened'],
                            note='virtual time stands still inside a timed block unless the fault plan expires it; the measure of simulated time is the number of seam events and of timed blocks executed'),
        runs_per_hour=round(3600.0 * stats['worlds'] / max(wall, 1e-9)), selftest=selftest, components=base.COMPONENTS,
        fault_kinds={'F3 timer expiry (statement)': stats['by_gran'].get('stmt', 0), 'F3 timer expiry (inside sympy call)': stats['by_gran'].get('deep', 0), 'F3 timer expiry (same source line every time)': stats['by_gran'].get('line', 0), 'F3 timer expiry (in worlds with two slow statements in different steps)': stats['by_gran'].get('lines2', 0),
                     'F5 rank count P>=2 worlds': sum(v for k, v in stats['by_P'].items() if k > 1)},
        known_findings_reproduced={k: v['count'] for k, v in rep.known_hits.items()},
        harness_errors=len(rep.harness), repo_head=base.repo_head(), exhaustive=False)
    rc = rep.finish()
    base.write_evidence(PID, tier, seed, 'fault_enumeration', cov, wall, len(rep.violations),
                        ['a timer can expire at statement boundaries of esr/generation/simplifier.py and at Python call boundaries inside sympy; '
                         'windows between two bytecodes of one statement are not reached',
                         'virtual clock: no timer fires unless the fault plan says so',
                         'LIB-SOUND is applied unrelaxed after faults'])
    return rc
