"""C06 - final ranking: minimum over variants, ascending order, normalised probabilities - for
every rank count and interleaving.  Workload: generated per-function result tables (finite
values on a coarse grid for ties, inf, nan, exact repeats of a likelihood, uniques without
variants); simulated dimension: P in 1..16 (incl. P > U: ranks writing empty files) and the
schedule.  Oracle: LIVE + RANK-MODEL refinement + byte equality with the 1-rank run (no ties)."""
import time

from esrsim.pool import Pool
from . import base
from .minimise import minimise

PID = 'C06'
JOB = 'checks.jobs:combine_world'
P_CHOICES = [1, 2, 2, 3, 3, 4, 5, 7, 8, 11, 13, 16]
POLICIES = ['uniform', 'uniform', 'pct', 'rr', 'lowest']


def sigs_of(args, r):
    s = set()
    if r is None:
        return s
    if r.get('violation'):
        s.add(r['violation']['sig'])
    if r.get('sig'):
        s.add(r['sig'])
    return s


def draw(seed, i):
    rs = base.run_seed(seed, i)
    rng = base.rng_for(rs)
    P = rng.choice(P_CHOICES)
    kind = rng.choice(POLICIES)
    pol = {'kind': kind}
    if kind == 'pct':
        pol.update(d=rng.randint(1, 3), horizon=60 * P)
    if kind == 'rr':
        pol.update(p_stall=rng.choice([0.05, 0.2]), max_stall=rng.choice([5, 40]))
    a = dict(table_seed=rs, compl=rng.choice([3, 3, 4, 10]), P=P, seed=rs, policy=pol, eager=rng.choice([0.0, 0.5, 1.0]),
             root_copy=rng.random() < 0.25, run_seed=rs)
    if rng.random() < 0.2:
        # a user-chosen function prior: non-default prefixes of the prior file, the per-rank/combined files and the final table
        a['prefixes'] = dict(fnprior_prefix='katz_codelen_', combineDL_prefix='combine_DL_katz_', final_prefix='final_katz_')
    if rng.random() < 0.03:
        a['big'] = True
        a['P'] = rng.choice([1, 2, 4, 16])
    return a


def main(tier, seed, budget):
    T = base.Timer()
    rep = base.Reporter(PID)
    quick = tier == 'quick'
    explore_s = budget or (120 if quick else 1200)
    stats = dict(big=0, prefixed=0, worlds=0, by_P={}, P_gt_U=0, rows=0, finite=0, ties=0, multi_argmin=0, cmp=0, events=0, nontrivial=set(),
                 tables=set(), no_variant_uniques=0)
    samples = []
    selftest = {}
    pending_min = []
    with Pool(16, hashseed=0) as pool:
        st = []
        for k in range(4):
            a = draw(seed, 980000 + k)
            a['P'] = [2, 3, 5, 16][k]
            for rep_i in range(2):
                st.append(dict(fn=JOB, args=a, tag=(k, rep_i)))
        got = {}
        for job, out in pool.imap(st, timeout=600):
            if out[0] == 'ok':
                got.setdefault(job['tag'][0], []).append((out[1]['digest'], repr(out[1].get('probs')), repr((out[1]['violation'] or {}).get('sig'))))
        bad = [k for k, v in got.items() if len(v) == 2 and v[0] != v[1]]
        selftest['same_seed_twice'] = dict(pairs=len(got), mismatches=len(bad))
        if bad:
            rep.harness_error('determinism self-test failed: %s' % bad)
        deadline = time.time() + explore_s

        def gen():
            i = 0
            while True:
                a = draw(seed, i)
                a['sample'] = i < 3
                yield dict(fn=JOB, args=a, timeout=600)
                i += 1
        for job, out in pool.imap(gen(), timeout=600, deadline=deadline):
            a = job['args']
            if out[0] != 'ok':
                rep.harness_error('world seed=%s: %s %s' % (a['run_seed'], out[0], str(out[1])[-400:]))
                continue
            r = out[1]
            stats['worlds'] += 1
            stats['big'] += int(bool(a.get('big')))
            stats['prefixed'] += int(bool(a.get('prefixes')))
            stats['events'] += r['steps']
            stats['by_P'][a['P']] = stats['by_P'].get(a['P'], 0) + 1
            tb, s_ = r.get('table') or {}, r.get('stats') or {}
            stats['P_gt_U'] += int(a['P'] > tb.get('U', 10 ** 9))
            stats['rows'] += s_.get('rows', 0)
            stats['finite'] += s_.get('finite', 0)
            stats['ties'] += int(s_.get('ties', 0) > 0)
            stats['multi_argmin'] += s_.get('tie_groups_multi_argmin', 0)
            stats['cmp'] += s_.get('cmp', 0)
            stats['no_variant_uniques'] += max(0, tb.get('U', 0) - s_.get('expected', tb.get('U', 0)))
            stats['tables'].add(a['table_seed'])
            if a['P'] > 1:
                stats['nontrivial'].add((a['table_seed'], a['P'], r['rdigest']))
            ss = sigs_of(a, r)
            if r.get('table_sample') and len(samples) < 3:
                samples.append(dict(table=r['table_sample'], P=a['P'], policy=a['policy'], eager=a['eager'], run_seed=a['run_seed'],
                                    final_rows=s_.get('rows'), verdict=sorted(ss) or 'ok'))
            for s in ss:
                if rep.add(s, dict(run_seed=a['run_seed'], job=dict(fn=JOB, args=a), violation=r.get('violation'), probs=r.get('probs'))):
                    pending_min.append((s, a, r))
        for s, a, r in pending_min[:5]:
            ma, mr, notes, okrep = minimise(pool, JOB, a, r, s, sigs_of, budget=25, timeout=600)
            ent = rep.violations.get(s) or rep.known_hits.get(s)
            if ent is not None:
                ent['record'] = dict(run_seed=a['run_seed'], hashseed=0, job=dict(fn=JOB, args=ma), minimisation=notes,
                                     violation=mr.get('violation'), probs=mr.get('probs'), digest=mr.get('digest'), reproducible=okrep)
                if not okrep:
                    rep.harness_error('violation %s did not replay' % s)
    wall = T()
    cov = dict(
        evaluations=stats['worlds'], distinct_nontrivial=len(stats['nontrivial']),
        rule='one evaluation = one simulated combine_DL world on a generated result table (U in 2..40 uniques, N in U..4U functions, palette '
             'with ties, inf, nan, repeated likelihoods, uniques without variants), P and scheduler policy drawn from the run seed. Non-trivial = '
             'P >= 2; distinct by (table seed, P, reduced interleaving digest).',
        samples=samples, worlds_by_P=stats['by_P'], worlds_with_more_ranks_than_uniques=stats['P_gt_U'], distinct_tables=len(stats['tables']), tables_with_more_than_1000_uniques=stats['big'], worlds_with_non_default_file_prefixes=stats['prefixed'],
        final_rows_checked=stats['rows'], uniques_with_finite_DL=stats['finite'], tables_with_DL_ties=stats['ties'],
        uniques_with_several_minimising_variants=stats['multi_argmin'], uniques_without_non_nan_variant=stats['no_variant_uniques'],
        one_rank_reruns_compared=stats['cmp'], seam_events=stats['events'],
        runs_per_hour=round(3600.0 * stats['worlds'] / max(wall, 1e-9)),
        fault_kinds={'F1 interleaving choice': stats['events'], 'F5 rank count': stats['worlds']}, selftest=selftest,
        components=base.COMPONENTS, harness_errors=len(rep.harness), repo_head=base.repo_head(), exhaustive=False)
    rc = rep.finish()
    base.write_evidence(PID, tier, seed, 'exploration', cov, wall, len(rep.violations),
                        ['tables are synthetic (written in the formats the previous stages use); the ranking stage never evaluates the functions',
                         'relative probabilities are checked only when some description length is finite',
                         'ties: any minimising variant and any order inside a tie group is accepted'])
    return rc
