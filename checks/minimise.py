"""Minimisation of a failing world before it is reported: fewer faults, simpler schedule,
fewer ranks - while the same violation signature persists.  Budgeted in re-executions."""
import copy

from esrsim.world import unrle


def _run(pool, job_fn, cands, timeout):
    jobs = [dict(fn=job_fn, args=a, tag=i) for i, a in enumerate(cands)]
    res = [None] * len(cands)
    for job, out in pool.imap(jobs, timeout=timeout):
        res[job['tag']] = out[1] if out[0] == 'ok' else None
    return res


def scripted(args, result, strict=True):
    a = copy.deepcopy(args)
    a['script'] = dict(choices=result['choices'], coins=result['coins'], strict=strict)
    return a


def minimise(pool, job_fn, args, result, sig, sigs_of, budget=40, timeout=600, log=None):
    """args/result: the failing job and its result; sigs_of(args, result) -> set of signatures.
    Returns (args, result, notes) of the smallest reproducing case found (always reproducing)."""
    notes = []
    used = 0

    def ok(a, r):
        return r is not None and sig in sigs_of(a, r)

    best_a, best_r = args, result
    # 0. exact replay must reproduce
    a0 = scripted(best_a, best_r, strict=True)
    r0, = _run(pool, job_fn, [a0], timeout)
    used += 1
    if not ok(a0, r0):
        notes.append('strict replay did NOT reproduce')
        return args, result, notes, False
    if r0.get('digest') != result.get('digest'):
        notes.append('strict replay reproduced the signature with a different event digest')
    best_a, best_r = a0, r0

    # 1. drop faults one at a time
    plan = best_a.get('plan') or {}
    flat = [(rk, b) for rk, d in plan.items() for b in d]
    if len(flat) > 1:
        for rk, b in flat:
            if used >= budget:
                break
            cand = copy.deepcopy(best_a)
            cand['plan'] = {r_: dict(d_) for r_, d_ in cand['plan'].items()}      # ranks may share one plan object
            if b not in cand['plan'].get(rk, {}):
                continue
            del cand['plan'][rk][b]
            cand.pop('script', None)
            cand['policy'] = {'kind': 'lowest'}
            r, = _run(pool, job_fn, [cand], timeout)
            used += 1
            if ok(cand, r):
                best_a, best_r = cand, r
                notes.append('dropped fault %s/%s' % (rk, b))

    # 1b. compound slow-statement faults: does one of the lines alone suffice?
    for rk, d in list((best_a.get('plan') or {}).items()):
        for b, ent in list(d.items()):
            if ent and ent[0] == 'lines' and len(ent[1]) > 1:
                for L, occ in ent[1]:
                    if used >= budget:
                        break
                    cand = copy.deepcopy(best_a)
                    cand['plan'][rk][b] = ['line', L, occ]
                    r, = _run(pool, job_fn, [cand], timeout)
                    used += 1
                    if ok(cand, r):
                        best_a, best_r = cand, r
                        notes.append('fault %s/%s reduced to the single line %s' % (rk, b, L))
                        break

    # 2. canonical schedules
    if best_a.get('P', 1) > 1 and used < budget:
        cands = []
        for eager in (0.0, 1.0):
            c = copy.deepcopy(best_a)
            c.pop('script', None)
            c['policy'] = {'kind': 'lowest'}
            c['eager'] = eager
            cands.append(c)
        rs = _run(pool, job_fn, cands, timeout)
        used += len(cands)
        for c, r in zip(cands, rs):
            if ok(c, r):
                best_a, best_r = c, r
                notes.append('reproduces under lowest-rank-first, eager=%s (schedule-independent)' % c['eager'])
                break
        else:
            # 3. shrink the scripted prefix (lenient script, lowest-rank-first afterwards)
            choices = unrle(best_r['choices'])
            lo, hi = 0, len(choices)
            while lo < hi and used < budget:
                mid = (lo + hi) // 2
                c = copy.deepcopy(best_a)
                c['policy'] = {'kind': 'lowest'}
                c['script'] = dict(choices=choices[:mid], coins=best_r['coins'], strict=False)
                r, = _run(pool, job_fn, [c], timeout)
                used += 1
                if ok(c, r):
                    hi = mid
                    best_a, best_r = c, r
                else:
                    lo = mid + 1
            notes.append('schedule-dependent; scripted prefix shrunk to %d decisions' % hi)

    # 4. fewer ranks
    while best_a.get('P', 1) > 1 and used < budget and best_a.get('allow_shrink_P', True):
        c = copy.deepcopy(best_a)
        c.pop('script', None)
        c['P'] = best_a['P'] - 1
        if c.get('plan'):
            c['plan'] = {k: v for k, v in c['plan'].items() if int(k) < c['P']}
        if 'policy' not in c or c['policy'].get('kind') == 'script':
            c['policy'] = {'kind': 'lowest'}
        r, = _run(pool, job_fn, [c], timeout)
        used += 1
        if ok(c, r):
            best_a, best_r = c, r
            notes.append('P reduced to %d' % c['P'])
        else:
            break

    # final: pin the schedule of the minimal case (a canonical lowest-rank-first run is already pinned)
    if best_a.get('policy', {}).get('kind') == 'lowest' and not best_a.get('script'):
        notes.append('re-executions used: %d' % used)
        return best_a, best_r, notes, True
    final = scripted(best_a, best_r, strict=True)
    rf, = _run(pool, job_fn, [final], timeout)
    used += 1
    if ok(final, rf):
        best_a, best_r = final, rf
    else:
        notes.append('final strict replay of the minimised case did not reproduce; keeping unminimised script')
        best_a, best_r = a0, r0
    notes.append('re-executions used: %d' % used)
    return best_a, best_r, notes, True
