"""./check selftest [all|determinism|injector|sensitivity]

(1) determinism: the same seeds executed twice, in separate worker processes, with 1 and 16 workers, and in
    a pool started under another PYTHONHASHSEED: event-log digests (and, within one hash seed, output file
    hashes) must match pairwise.
(2) injector: on a small victim module a fault at every statement tick and at a spread of call events inside
    sympy must be caught by the enclosing `except TimeoutException`; none escapes, none is lost.
(3) sensitivity: three of the seeded changes under /verif/seeded are applied to scratch worktrees and the
    owning check must report a VIOLATION within its quick budget.
A failing self-test is a harness error (exit 3), never a VIOLATION."""
import os
import subprocess
import sys

from esrsim.pool import Pool
from . import base


def determinism():
    ok = True
    from .c13 import draw_run
    from . import configs
    cfgs = [dict(runname='core_maths', basis=None, compl=3, nfun=22), dict(runname='osc_maths', basis=None, compl=3, nfun=28),
            dict(runname='core_maths', basis=None, compl=4, nfun=62)]
    jobs = []
    for k in range(8):
        a = draw_run(4242, k, cfgs, 'quick')
        a['P'] = [2, 3, 5, 4, 7, 2, 3, 16][k]
        jobs.append(dict(fn='checks.jobs:gen_world', args=a, tag=k))
    fit = []
    from .c14 import draw_fit
    results = {}

    def run(nw, hs, label):
        with Pool(nw, hashseed=hs) as pool:
            for rep in range(2):
                for job, out in pool.imap([dict(j) for j in jobs], timeout=900):
                    if out[0] != 'ok':
                        print('HARNESS-ERROR selftest determinism: job failed', out[0])
                        return False
                    r = out[1]
                    results.setdefault(job['tag'], []).append((label, rep, r['digest'], tuple(sorted(r['hashes'].items())), hs))
        return True
    if not (run(16, 0, 'w16') and run(1, 0, 'w1') and run(8, 5, 'hs5')):
        return False
    for k, lst in sorted(results.items()):
        dig = {x[2] for x in lst}
        files0 = {x[3] for x in lst if x[4] == 0}
        if len(dig) != 1:
            print('HARNESS-ERROR selftest determinism: event digests differ for seed %d: %s' % (k, sorted(dig)))
            ok = False
        if len(files0) != 1:
            print('HARNESS-ERROR selftest determinism: output files differ for seed %d within hash seed 0' % k)
            ok = False
    print('selftest determinism: %d seeds x (2 runs x {16 workers, 1 worker, other PYTHONHASHSEED}) -> %s' % (len(results), 'identical' if ok else 'MISMATCH'))
    return ok


def injector():
    ok = True
    with Pool(8, hashseed=0) as pool:
        (j, out), = pool.run([dict(fn='checks.jobs:victim_world', args=dict(profile=True, profile_calls=True, n=2, seed=0))], timeout=300)
        if out[0] != 'ok' or out[1]['violation']:
            print('HARNESS-ERROR selftest injector: profile run failed', str(out[1])[-500:])
            return False
        prof = out[1]['ranks'][0]['clock']['profile']
        if out[1]['log'] != [['done', 0], ['done', 1]] and out[1]['log'] != [('done', 0), ('done', 1)]:
            print('HARNESS-ERROR selftest injector: fault-free victim log', out[1]['log'])
            return False
        jobs = []
        for b, nt, nc, cid, site in prof:
            for t in range(1, nt + 1):
                jobs.append(dict(fn='checks.jobs:victim_world', args=dict(plan={'0': {str(b): ['stmt', t]}}, n=2, seed=0), tag=(b, 'stmt', t)))
            step = max(1, nc // 40)
            for t in list(range(1, min(nc, 30) + 1)) + list(range(31, nc + 1, step)):
                jobs.append(dict(fn='checks.jobs:victim_world', args=dict(plan={'0': {str(b): ['deep', t]}}, n=2, seed=0), tag=(b, 'deep', t)))
        nf = 0
        for job, out in pool.imap(jobs, timeout=300):
            b, gran, t = job['tag']
            if out[0] != 'ok':
                print('HARNESS-ERROR selftest injector: job failed', job['tag'], str(out[1])[-300:])
                ok = False
                continue
            r = out[1]
            fired = r['ranks'][0]['clock']['fired'] if r['ranks'] and r['ranks'][0].get('clock') else []
            log = [tuple(x) for x in (r['log'] or [])]
            # the interrupted iteration must end in the handler (a fault in time_limit's finally strikes after the body
            # has logged 'done': then both entries are present); every other iteration completes normally
            good = True
            for i in range(2):
                ent = [x[0] for x in log if x[1] == i]
                good &= (ent in (['caught'], ['done', 'caught'])) if i == b - 1 else (ent == ['done'])
            if r['violation'] is not None or len(fired) != 1 or not good:
                print('HARNESS-ERROR selftest injector: fault %s -> violation=%s fired=%s log=%s' % (
                    job['tag'], (r['violation'] or {}).get('sig'), fired, log))
                ok = False
            nf += 1
        print('selftest injector: %d faults (every statement tick incl. inside time_limit and comprehensions; call events inside sympy) -> %s'
              % (nf, 'all caught by the enclosing handler' if ok else 'FAILED'))
    return ok


SENS = [('C14-m3', 'C14', 60), ('C15-m1', 'C15', 60), ('C16-m1', 'C16', 45)]


def sensitivity():
    ok = True
    for mid, pid, budget in SENS:
        patch = os.path.join(base.VERIF, 'seeded', mid, 'patch.diff')
        p = subprocess.run([os.path.join(base.VERIF, 'tools', 'try_mutant.sh'), patch, pid, 'quick', str(budget)], capture_output=True, text=True)
        hit = 'VIOLATION property=%s' % pid in p.stdout
        print('selftest sensitivity: %s applied to a scratch worktree -> check %s %s' % (mid, pid, 'reports a violation' if hit else 'MISSED IT'))
        if not hit:
            print('HARNESS-ERROR selftest sensitivity: %s not detected by %s' % (mid, pid))
            print(p.stdout[-800:])
            ok = False
    return ok


def main(argv):
    what = argv[0] if argv else 'all'
    ok = True
    if what in ('all', 'injector'):
        ok &= injector()
    if what in ('all', 'determinism'):
        ok &= determinism()
    if what in ('all', 'sensitivity'):
        ok &= sensitivity()
    print('selftest %s: %s' % (what, 'OK' if ok else 'FAILED'))
    return base.EXIT_OK if ok else base.EXIT_HARNESS
