"""Dispatcher for ./check.  Not imported by anything else."""
import faulthandler
import importlib
import json
import os
import sys
import traceback

VERIF = os.path.dirname(os.path.dirname(os.path.abspath(__file__)))
if VERIF not in sys.path:
    sys.path.insert(0, VERIF)
sys.dont_write_bytecode = True

from checks import base  # noqa: E402

CHECKS = {'C03': 'checks.c03', 'C06': 'checks.c06', 'C13': 'checks.c13', 'C14': 'checks.c14', 'C15': 'checks.c15',
          'C16': 'checks.c16', 'C17': 'checks.c17'}


def main(argv):
    if len(argv) < 2:
        print('usage: check <id> quick|thorough | check replay <file> | check selftest')
        return base.EXIT_HARNESS
    faulthandler.enable()
    cmd = argv[1]
    try:
        if cmd == 'replay':
            from checks import replay
            return replay.main(argv[2])
        if cmd == 'selftest':
            from checks import selftest
            return selftest.main(argv[2:])
        pid = cmd.upper()
        if pid not in CHECKS:
            print('unknown property', pid)
            return base.EXIT_HARNESS
        tier, seed, budget = base.tier_and_seed(argv[2] if len(argv) > 2 else None)
        print('check %s tier=%s VERIF_SEED=%d repo=%s' % (pid, tier, seed, base.repo_head()), flush=True)
        mod = importlib.import_module(CHECKS[pid])
        return mod.main(tier, seed, budget)
    except base.HarnessError as e:
        print('HARNESS-ERROR %s' % e, flush=True)
        return base.EXIT_HARNESS
    except Exception:
        print('HARNESS-ERROR unexpected exception in check driver', flush=True)
        traceback.print_exc()
        return base.EXIT_HARNESS


if __name__ == '__main__':
    rc = main(sys.argv)
    sys.stdout.flush()
    sys.stderr.flush()
    os._exit(rc)
