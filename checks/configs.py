"""Configuration pool: shipped bases and seeded sub-bases, with predicted function counts."""
import functools

SHIPPED = {
    'core_maths': [["x", "a"], ["inv"], ["+", "*", "-", "/", "pow"]],
    'ext_maths': [["x", "a"], ["inv", "sqrt_abs", "square", "exp"], ["+", "*", "-", "/", "pow"]],
    'osc_maths': [["x", "a"], ["inv", "sin"], ["+", "*", "-", "/", "pow"]],
    'base10_maths': [["x", "a"], ["tenexp", "inv", "log10_abs"], ["+", "*", "-", "/", "pow"]],
    'base_e_maths': [["x", "a"], ["inv", "exp", "log_abs"], ["+", "*", "-", "/", "pow"]],
    'keep_duplicates': [["x", "a"], ["square", "exp", "inv", "sqrt_abs", "log_abs"], ["+", "*", "-", "/", "pow"]],
}
UNARY = ["inv", "square", "cube", "sqrt_abs", "exp", "log_abs", "sin", "tenexp", "log10_abs"]
BINARY = ["+", "*", "-", "/", "pow"]


@functools.lru_cache(None)
def shape_counts(n):
    """dict (n0, n1, n2) -> number of unary-binary tree shapes with n nodes and that many node kinds."""
    if n == 1:
        return {(1, 0, 0): 1}
    out = {}
    for (a, b, c), k in shape_counts(n - 1).items():           # unary root
        key = (a, b + 1, c)
        out[key] = out.get(key, 0) + k
    for left in range(1, n - 1):                                # binary root
        right = n - 1 - left
        for (a, b, c), k in shape_counts(left).items():
            for (a2, b2, c2), k2 in shape_counts(right).items():
                key = (a + a2, b + b2, c + c2 + 1)
                out[key] = out.get(key, 0) + k * k2
    return out


def nfun(basis, n):
    b0, b1, b2 = (len(x) for x in basis)
    return sum(k * b0 ** a * b1 ** b * b2 ** c for (a, b, c), k in shape_counts(n).items())


def sub_basis(rng):
    nu = rng.choice([1, 1, 2, 2, 3])
    nb = rng.choice([1, 2, 2, 3, 4, 5])
    un = sorted(rng.sample(UNARY, nu), key=UNARY.index)
    bi = sorted(rng.sample(BINARY, nb), key=BINARY.index)
    if rng.random() < 0.7:
        # the tree-rewriting code (update_tree / update_sums) is written for bases whose binary operators include
        # + and * (all shipped bases do); most sub-bases respect that, the rest probe outside it
        bi = sorted(set(bi) | {'+', '*'}, key=BINARY.index)
    nul = ["x", "a"]
    r = rng.random()
    if r < 0.2:
        nul = ["a", "x"]              # operator ORDER inside a basis list decides the enumeration order, hence which rank owns what
    if rng.random() < 0.3:
        rng.shuffle(un)
        rng.shuffle(bi)
    return [nul, un, bi]


def in_supported_domain(basis):
    return basis is None or ('+' in basis[2] and '*' in basis[2])


def basis_name(basis):
    import hashlib
    return 'verif_' + hashlib.sha256(repr(basis).encode()).hexdigest()[:8]


# Bases without unary operators: few functions per complexity, so complexity 7 (functions with 3 and 4 parameters) is affordable
DEEP = [([["x", "a"], [], ["+", "*"]], 7), ([["x", "a"], [], ["+", "*"]], 5), ([["x", "a"], [], ["+", "-"]], 7), ([["x", "a"], [], ["*", "/"]], 7),
        ([["x", "a"], [], ["*", "pow"]], 5), ([["a", "x"], [], ["+", "*", "-"]], 5), ([["x", "a"], [], ["-", "*"]], 7), ([["x", "a"], [], ["/", "pow"]], 7),
        # long operator names at complexity 7-8: label arrays and function texts beyond the 75/80-character line widths
        ([["x", "a"], ["log10_abs"], []], 7), ([["x", "a"], ["log10_abs", "sqrt_abs"], []], 8), ([["x", "a"], ["log10_abs"], ["*"]], 7)]


def micro(rng):
    """One unary, one binary operator, complexity 3: four labelled trees for the binary shape, two for the unary one, and the
    first tree (x op x, u(u(x))) is the one most likely to have a rewritten twin - so 5..16 ranks leave ranks without a share
    exactly where extra trees are found."""
    out = []
    for b2 in BINARY:
        u = rng.choice(UNARY)
        b = [["x", "a"], [u], [b2]]
        out.append(dict(runname=basis_name(b), basis=b, compl=3, nfun=nfun(b, 3), micro=True))
    return out


def pool(rng, n_sub, max_n, cap, shipped=True, min_n=1, deep=False):
    """List of configs dict(runname, basis|None, compl, nfun).  Predicted counts above `cap` are skipped."""
    out, skipped = [], []
    if deep:
        for b, n in DEEP:
            k = nfun(b, n)
            (out if k <= cap else skipped).append(dict(runname=basis_name(b), basis=b, compl=n, nfun=k))
    if shipped:
        for name, b in SHIPPED.items():
            for n in range(min_n, max_n + 1):
                k = nfun(b, n)
                (out if k <= cap else skipped).append(dict(runname=name, basis=None, compl=n, nfun=k))
    seen = set()
    tries = 0
    while len(seen) < n_sub and tries < 50 * n_sub + 50:
        tries += 1
        b = sub_basis(rng)
        name = basis_name(b)
        if name in seen:
            continue
        seen.add(name)
        ns = [n for n in range(min_n, max_n + 1) if nfun(b, n) <= cap]
        if not ns:
            continue
        n = rng.choice(ns[-2:])          # prefer the larger complexities that still fit
        out.append(dict(runname=name, basis=b, compl=n, nfun=nfun(b, n)))
        low = [m for m in ns if m <= 3 and m != n]
        if low and rng.random() < 0.8:
            # ... and the same basis at a small complexity: few labelled trees per shape, so that 5..16 ranks leave ranks idle
            m = rng.choice(low)
            out.append(dict(runname=name, basis=b, compl=m, nfun=nfun(b, m)))
    return out, skipped
