"""Job functions executed inside zygote workers.  Each builds a scratch dir, runs one or more
worlds and evaluates oracles; returns plain data."""
import hashlib
import os
import random
import shutil

from esrsim.farm import libdir, make_farm
from esrsim.world import rle, run_world
from oracles import libsound

GEN_FILES = ('orig_trees', 'extra_trees', 'trees', 'all_equations', 'orig_aifeyn', 'extra_aifeyn', 'aifeyn')
SOUND_FILES = ('unique_equations', 'matches', 'inv_subs')


def file_hashes(d):
    out = {}
    if not os.path.isdir(d):
        return out
    for f in sorted(os.listdir(d)):
        p = d + '/' + f
        if os.path.isfile(p):
            with open(p, 'rb') as fh:
                out[f] = hashlib.sha256(fh.read()).hexdigest()[:24]
    return out


def slim(res, keep_choices=True):
    """Transportable summary of a world result."""
    out = dict(violation=res['violation'], diverged=res['diverged'], steps=res['steps'], digest=res['digest'],
               rdigest=res['rdigest'], nshared=res['nshared'], nfs=res['nfs'], nmpi=res['nmpi'], P=res['P'],
               coins=res['coins'])
    if keep_choices:
        out['choices'] = rle(res['choices'])
    out['ranks'] = [dict(status=r['status'], exc=r['exc'], clock=r['clock'], out=r['out'], nev=r['nev'],
                         ncoll=r['ncoll'], blocked=r['blocked'], tb=(r['tb'] or '')[-1200:] if r['tb'] else None)
                    for r in res['ranks']]
    if res.get('trace') is not None:
        out['trace'] = res['trace']
    return out


def world_spec(args, program):
    spec = dict(P=int(args.get('P', 1)), program=program, seed=int(args.get('seed', 0)),
                policy=args.get('policy') or {'kind': 'lowest'}, eager=float(args.get('eager', 0.5)),
                root_copy=bool(args.get('root_copy', False)), npseed=int(args.get('npseed', 0)),
                plan=args.get('plan'), profile=bool(args.get('profile')), profile_calls=bool(args.get('profile_calls')),
                tick_modules=args.get('tick_modules') or [], canary=args.get('canary'), repo=args.get('repo'),
                trace=bool(args.get('trace')), script=args.get('script'), rank_hashseeds=args.get('rank_hashseeds'), op_plans=args.get('op_plans'))
    if args.get('max_steps'):
        spec['max_steps'] = int(args['max_steps'])
    return spec


def gen_world(args, scratch):
    """One generation world + LIB-SOUND + file hashes."""
    os.makedirs(scratch, exist_ok=True)
    runname, compl = args['runname'], int(args['compl'])
    kw = dict(runname=runname, compl=compl)
    if args.get('basis') is not None:
        kw['basis'] = args['basis']
    kw.update(args.get('gen_kw') or {})
    program = list(args.get('pre') or []) + [['gen', kw]]
    res = run_world(world_spec(args, program), scratch)
    out = slim(res, keep_choices=bool(args.get('keep_choices', True)))
    if args.get('profile'):
        for rk in out['ranks']:
            prof = (rk.get('clock') or {}).get('profile')
            if prof is not None:
                rk['clock']['profile'] = [[b, nt, nc, hashlib.sha256(repr((site, path)).encode()).hexdigest()[:12], list(site) if site else None, sorted(set(path))]
                                          for b, nt, nc, path, site in prof]
    d = libdir(scratch, runname, compl)
    out['hashes'] = file_hashes(d)
    out['real_expired'] = sum((rk.get('clock') or {}).get('real_expired', 0) for rk in out['ranks'])
    if res['violation'] is None and res['diverged'] is None:
        if args.get('ref_hashes'):
            out['diff'] = sorted(f for f, h in args['ref_hashes'].items() if out['hashes'].get(f) != h)
        if args.get('cmp_hashes') and not out['real_expired']:
            ch = args['cmp_hashes']
            out['cmpdiff'] = sorted(f for f in set(ch) | set(out['hashes']) if ch.get(f) != out['hashes'].get(f))
    if res['violation'] is None and res['diverged'] is None and args.get('oracle', True):
        stats = {}
        nround = None
        try:
            import re as _re
            m_ = _re.findall(r'Round (\d+) of (\d+)', open(scratch + '/rank0.out').read())
            if m_:
                nround = int(m_[-1][1])
        except Exception:
            pass
        try:
            probs = libsound.check_library(d, compl, random.Random(int(args.get('oracle_seed', 1))), stats=stats, nround=nround)
        except FileNotFoundError as e:
            probs = [('missing-file', os.path.basename(str(e.filename)))]
        snap = '%s/precheck/%s__%d.txt' % (scratch, runname, compl)
        if args.get('precheck') and nround and os.path.exists(snap) and not any(p[0] != 'inconclusive' for p in probs):
            probs += libsound.check_precheck(d, compl, snap, nround, random.Random(int(args.get('oracle_seed', 1)) + 1), stats=stats)
        out['probs'] = [list(map(str, p)) for p in probs if p[0] != 'inconclusive'][:10]
        out['sig'] = libsound.classify(probs)
        # one signature per KIND of problem (first instance each): a listed finding of one kind must not hide another kind
        seen_k, out['kind_sigs'] = set(), []
        for p_ in probs:
            if p_[0] != 'inconclusive' and p_[0] not in seen_k:
                seen_k.add(p_[0])
                out['kind_sigs'].append(libsound.classify([p_]))
        out['stats'] = stats
        try:
            out['nfun'] = stats.get('functions')
            with open('%s/unique_equations_%d.txt' % (d, compl)) as f:
                out['nuniq'] = len(f.read().splitlines())
        except Exception:
            pass
    if args.get('save_lib'):
        dst = args['save_lib']
        if os.path.isdir(d):
            os.makedirs(os.path.dirname(dst), exist_ok=True)
            shutil.copytree(d, dst, dirs_exist_ok=True)
    try:
        import re
        m = re.findall(r'Need to change (\d+) functions', open(scratch + '/rank0.out').read())
        out['n_unmerged'] = int(m[-1]) if m else None
    except Exception:
        out['n_unmerged'] = None
    if args.get('tail'):
        try:
            out['stdout_tail'] = open(scratch + '/rank0.out').read()[-int(args['tail']):]
        except Exception:
            pass
    return out


# ------------------------------------------------------------------------------------------
# C13: the final result check (check_results) on a large library, P ranks vs one rank
# ------------------------------------------------------------------------------------------
def recheck_world(args, scratch):
    """A small library is generated by one rank; its rows that carry a parameter map are repeated until `M` rows carry one
    (plus `plain` rows without), `wrong` of them are given the match and map of another row (so that the check has something
    to split off); then check_results runs on P ranks and, on a copy of the same library, on one rank.  Oracle: every rank
    terminates and the files are byte-identical to the one-rank files."""
    os.makedirs(scratch, exist_ok=True)
    runname, compl = args['runname'], int(args['compl'])
    kw = dict(runname=runname, compl=compl)
    if args.get('basis') is not None:
        kw['basis'] = args['basis']
    g = run_world(world_spec(dict(args, P=1, policy={'kind': 'lowest'}, script=None, plan=None, seed=0, rank_hashseeds=None), [['gen', kw]]), scratch)
    if g['violation'] is not None:
        return dict(violation=None, diverged=None, sig=None, skipped='fixture generation failed: %s' % g['violation']['sig'], P=int(args['P']), steps=0, ranks=[])
    d = libdir(scratch, runname, compl)

    def rd(name):
        with open('%s/%s_%d.txt' % (d, name, compl)) as f:
            return f.read().splitlines()
    allf, inv, mt = rd('all_equations'), rd('inv_subs'), rd('matches')
    mapped = [i for i in range(len(allf)) if inv[i].strip()]
    plain = [i for i in range(len(allf)) if not inv[i].strip()]
    if not mapped:
        return dict(violation=None, diverged=None, sig=None, skipped='no function with a map', P=int(args['P']), steps=0, ranks=[])
    rng = random.Random(int(args.get('lib_seed', 0)))
    rows = [mapped[k % len(mapped)] for k in range(int(args['M']))] + [rng.choice(plain) for _ in range(int(args.get('plain', 0)) if plain else 0)]
    rng.shuffle(rows)
    A = [allf[i] for i in rows]
    I = [inv[i] for i in rows]
    Mt = [mt[i] for i in rows]
    for _ in range(int(args.get('wrong', 0))):
        a, b = rng.randrange(len(rows)), rng.randrange(len(rows))
        if I[a].strip() and I[b].strip():
            I[a], Mt[a] = I[b], Mt[b]
    for name, lines in (('all_equations', A), ('inv_subs', I), ('matches', Mt)):
        with open('%s/%s_%d.txt' % (d, name, compl), 'w') as f:
            f.write(''.join(x + '\n' for x in lines))
    keep = scratch + '/lib_before'
    shutil.copytree(d, keep)
    prog = [['check_results', dict(runname=runname, compl=compl)]]
    res = run_world(world_spec(args, prog), scratch)
    out = slim(res, keep_choices=bool(args.get('keep_choices', True)))
    out['hashes'] = {f: h for f, h in file_hashes(d).items() if f.split('_%d' % compl)[0] in SOUND_FILES + ('all_equations',)}
    out['probs'], out['sig'] = [], None
    if res['violation'] is None and res['diverged'] is None:
        shutil.rmtree(d)
        shutil.copytree(keep, d)
        r1 = run_world(world_spec(dict(args, P=1, policy={'kind': 'lowest'}, script=None, plan=None, rank_hashseeds=None), prog), scratch)
        if r1['violation'] is not None:
            out['probs'] = [['one-rank-run-failed', r1['violation']['sig']]]
            out['sig'] = 'recheck:one-rank-run-failed'
        else:
            h1 = {f: h for f, h in file_hashes(d).items() if f in out['hashes']}
            bad = sorted(f for f in set(h1) | set(out['hashes']) if h1.get(f) != out['hashes'].get(f))
            if bad:
                out['probs'] = [['differs-from-1-rank-check', bad]]
                out['sig'] = 'recheck:differs-from-1-rank-check:' + bad[0]
        try:
            import re
            m = re.findall(r'Need to change (\d+) functions', open(scratch + '/rank0.out').read())
            out['n_unmerged'] = int(m[-1]) if m else None
        except Exception:
            out['n_unmerged'] = None
    out['rows'] = len(rows)
    return out


# ------------------------------------------------------------------------------------------
# C14 layer 1: the slices the stages actually use
# ------------------------------------------------------------------------------------------
def slices_world(args, scratch):
    from oracles import rows
    os.makedirs(scratch, exist_ok=True)
    make_farm(scratch, args.get('canary'), args.get('repo'))
    cases = []
    for N in args['Ns']:
        fn_set = 'tile_%d' % N
        d = libdir(scratch, fn_set, 1)
        os.makedirs(d)
        with open(d + '/unique_equations_1.txt', 'w') as f:
            f.write(''.join('u%d\n' % i for i in range(N)))
        with open(d + '/all_equations_1.txt', 'w') as f:
            f.write(''.join('f%d\n' % i for i in range(N)))
        cases.append([fn_set, N])
    os.makedirs(scratch + '/user/fitting')
    res = run_world(world_spec(args, [['slices', {'cases': cases}]]), scratch)
    out = slim(res, keep_choices=bool(args.get('keep_choices', True)))
    probs = []
    if res['violation'] is None and res['diverged'] is None:
        reps = [rk['out'].get('slices') for rk in res['ranks']]
        P = res['P']
        for ci, (fn_set, N) in enumerate(cases):
            for key, prefix in (('gf_unique', 'u'), ('gf_all', 'f')):
                sl, cat = [], []
                for r in range(P):
                    s, e, lst = reps[r][ci][key]
                    sl.append((min(s, N), min(e, N)))
                    cat += lst
                    if lst != ['%s%d' % (prefix, i) for i in range(min(s, N), min(e, N))]:
                        probs.append(['slice-content', key, N, P, r, s, e])
                for p in rows.tile(sl, N):
                    probs.append(['tile', key, N, P] + list(map(str, p)))
                if cat != ['%s%d' % (prefix, i) for i in range(N)]:
                    probs.append(['concat', key, N, P])
            sl = []
            for r in range(P):
                i = reps[r][ci]['split_idx']
                sl.append((i[0], i[-1] + 1) if i else (0, 0))
            for p in rows.tile(sl, N):
                probs.append(['tile', 'split_idx', N, P] + list(map(str, p)))
    out['probs'] = probs[:10]
    out['sig'] = ('tile:%s:%s' % (probs[0][0], probs[0][1])) if probs else None
    out['ncases'] = len(cases)
    return out


# ------------------------------------------------------------------------------------------
# C14 layer 2 / C16: real fitting stages on a fixture library
# ------------------------------------------------------------------------------------------
STAGE_FILES = {
    'test_all': ['negloglike_comp%d.dat'],
    'fisher': ['codelen_comp%d_deriv.dat', 'derivs_comp%d.dat'],
    'match': ['codelen_matches_comp%d.dat'],
    'combine': ['combine_DL_comp%d.dat', 'combine_DL_fcn_comp%d.dat', 'final_%d.dat', 'results_pretty_%d.txt'],
}


def make_data(kind, seed, npts):
    import numpy as np
    rs = np.random.RandomState(seed % (2 ** 32))
    x = rs.uniform(0.5, 3.0, npts)
    if seed % 2 == 0:
        x = np.sort(x)          # half of the data sets come sorted by x, half do not
    a, b = rs.uniform(0.5, 2.0), rs.uniform(-1.0, 1.0)
    form = seed % 3
    truth = a * x ** 2 + b if form == 0 else (a / x + b + 2 if form == 1 else a * x + abs(b) + 0.5)
    if kind == 'Gauss':
        sig = np.full(npts, 0.1 + 0.2 * rs.uniform())
        y = truth + sig * rs.normal(size=npts)
        return np.array([x, y, sig]).T
    if kind == 'Poisson':
        y = rs.poisson(10 * np.abs(truth) + 3).astype(float)
        return np.array([x, y]).T
    raise ValueError(kind)


SYNTH_FUNS = ['x', 'a0*x', 'a0 + a1*x', 'a0 + a1*x + a2*x**2', 'a0 + a1*x + a2*x**2 + a3*x**3 + a4*x**4', 'a0*x**2', 'a0/x + a1',
              'a0 + a1*x + a2*x**2 + a3*x**3', 'a0*x + a1*x**2 + a2*x**3 + a3*x**4 + a4*x**5', 'a0 + a1/x', 'x**2', 'a0*x**3 + a1',
              # poles when parameters are set to zero (match.main's "zero a subset of the parameters" search)
              '1/(a0*x + a1)', 'a0/(a1 + a2*x)', 'x/(a0 + a1*x + a2*x**2)']


def write_synth_lib(d, comp, seed):
    rng = random.Random(seed)
    funs = list(SYNTH_FUNS)
    rng.shuffle(funs)
    funs = funs[:rng.randint(4, len(funs))]
    os.makedirs(d, exist_ok=True)
    for name in ('unique_equations', 'all_equations'):
        with open('%s/%s_%d.txt' % (d, name, comp), 'w') as f:
            f.write(''.join(s + '\n' for s in funs))
    with open('%s/matches_%d.txt' % (d, comp), 'w') as f:
        f.write(''.join('%d\n' % i for i in range(len(funs))))
    with open('%s/inv_subs_%d.txt' % (d, comp), 'w') as f:
        f.write('\n' * len(funs))
    with open('%s/aifeyn_%d.txt' % (d, comp), 'w') as f:
        f.write(''.join('%r\n' % (comp * 1.0986122886681098 + 0.1 * i) for i in range(len(funs))))
    return funs


def install_lib(scratch, lib_src, runname):
    dst = libdir(scratch, runname)
    os.makedirs(os.path.dirname(dst), exist_ok=True)
    if not os.path.isdir(dst):
        shutil.copytree(lib_src, dst)


def like_paths(scratch, like):
    """(out_dir, temp_dir, data rows, kind) for a likelihood spec."""
    import numpy as np
    if like['cls'] in ('Gauss', 'Poisson'):
        base = scratch + '/' + like['data_dir'] + '/fitting/output'
        return base + '/output_' + like['run_name'], base + '/partial_' + like['run_name']
    if like['cls'] == 'Mock':
        rn = 'mock_%i_' % like['nz'] + str(like['yfracerr'])
    else:
        rn = 'cc_dimful'
    base = scratch + '/pkg/esr/fitting/output'
    return base + '/output_' + rn, base + '/partial_' + rn


def like_data(scratch, like):
    import numpy as np
    from esrsim.common import REPO
    if like['cls'] in ('Gauss', 'Poisson'):
        return np.loadtxt(scratch + '/' + like['data_dir'] + '/' + like['data_file']).tolist()
    repo = os.environ.get('ESRSIM_REPO', REPO)
    if like['cls'] == 'Mock':
        p = repo + '/esr/data/mock/CC_Hubble_%i_' % like['nz'] + str(like['yfracerr']) + '.dat'
    else:
        p = repo + '/esr/data/CC_Hubble.dat'
    return np.genfromtxt(p).tolist()


def fit_program(like, comp, stages, opts):
    lk = dict(like)
    lk['name'] = 'L'
    prog = [['like', lk]]
    for st in stages:
        kw = dict(stage=st, comp=comp, like='L')
        kw.update(opts.get(st) or {})
        prog.append(['fit', kw])
    return prog


def fit_world(args, scratch):
    """Fresh output directory; construct the likelihood on every rank; run the four stages; ROW
    oracles; then (cmp=True) a 1-rank world re-runs the deterministic stages on the same inputs."""
    import numpy as np
    from oracles import rows
    os.makedirs(scratch, exist_ok=True)
    make_farm(scratch, args.get('canary'), args.get('repo'))
    runname, comp = args['runname'], int(args['compl'])
    if runname.startswith('synth'):
        # hand-written high-complexity library (complexity >= 11 makes the parameter table 5+ columns wide and puts
        # functions with 5 parameters on some ranks only) - real libraries of that size are out of budget
        write_synth_lib(libdir(scratch, runname, comp), comp, int(args.get('synth_seed', 0)))
    elif args.get('lib_src') and os.path.isdir(args['lib_src']):
        install_lib(scratch, args['lib_src'], runname)
    else:
        # replay in a later process: the fixture directory of the original check run is gone; regenerate it
        ipe_ = bool(((args.get('opts') or {}).get('test_all') or {}).get('ignore_previous_eqns'))
        g = run_world(world_spec(dict(args, P=1, policy={'kind': 'lowest'}, script=None, plan=None, seed=0),
                                 [['gen', dict(runname=runname, compl=c_)] for c_ in (range(1, comp + 1) if ipe_ else [comp])]), scratch)
        if g['violation'] is not None:
            raise RuntimeError('fixture generation failed: %s' % g['violation']['sig'])
    like = dict(args['like'])
    like.setdefault('fn_set', runname)
    if like['cls'] in ('Gauss', 'Poisson'):
        os.makedirs(scratch + '/' + like['data_dir'], exist_ok=True)
        fmt = '%.6f'
        np.savetxt(scratch + '/' + like['data_dir'] + '/' + like['data_file'],
                   make_data(like['cls'], int(args['data_seed']), int(args['npts'])), fmt=fmt)
    stages = args.get('stages') or ['test_all', 'fisher', 'match', 'combine']
    prog = list(args.get('pre') or []) + fit_program(like, comp, stages, args.get('opts') or {})
    out_dir, temp_dir = like_paths(scratch, like)
    wf = args.get('weak_fisher')
    if wf and 'fisher' in stages:
        k = max(i for i, op in enumerate(prog) if op[0] == 'fit' and op[1]['stage'] == 'fisher')
        prog.insert(k + 1, ['weak_fisher', dict(path=os.path.relpath('%s/derivs_comp%d.dat' % (out_dir, comp), scratch), factor=float(wf))])
    res = run_world(world_spec(args, prog), scratch)
    out = slim(res, keep_choices=bool(args.get('keep_choices', True)))
    out_dir, temp_dir = like_paths(scratch, like)
    probs, stats = [], {}
    if res['violation'] is None and res['diverged'] is None:
        lib = libdir(scratch, runname, comp)
        uniq = rows.read_lines('%s/unique_equations_%d.txt' % (lib, comp))
        allf = rows.read_lines('%s/all_equations_%d.txt' % (lib, comp))
        matches = [int(float(t)) for t in rows.read_lines('%s/matches_%d.txt' % (lib, comp))]
        data = like_data(scratch, like)
        kind = like['cls']
        try:
            if 'test_all' in stages:
                probs += rows.check_negloglike('%s/negloglike_comp%d.dat' % (out_dir, comp), uniq, kind, data, stats)
                if ((args.get('opts') or {}).get('test_all') or {}).get('ignore_previous_eqns') and comp > 1 and not probs:
                    # row i refers to function i, also for the rows the option is meant to skip: a unique function that already is
                    # a unique function of a lower complexity must carry the "skipped" row (inf, no parameters), whichever rank
                    # owns it and whenever that rank read the shared list of earlier equations
                    prev = set()
                    for k_ in range(1, comp):
                        try:
                            prev.update(rows.read_lines('%s/unique_equations_%d.txt' % (libdir(scratch, runname, k_), k_)))
                        except FileNotFoundError:
                            pass
                    tab = rows.read_table('%s/negloglike_comp%d.dat' % (out_dir, comp))
                    for i_, (row_, f_) in enumerate(zip(tab, uniq)):
                        if f_ in prev:
                            stats['skipped_rows_checked'] = stats.get('skipped_rows_checked', 0) + 1
                            timed_out_ = bool(args.get('plan')) and row_[0] != row_[0]
                            # with injected time-outs in the fitting stage a row may legitimately be nan (the fit of that
                            # function was interrupted before the look-up); it may never carry a fitted value
                            if not timed_out_ and not (row_[0] == float('inf') and all(v_ == 0 for v_ in row_[1:])):
                                probs.append(('repeat-not-skipped', 'negloglike', i_, f_, row_[0]))
                                break
            if 'fisher' in stages:
                probs += rows.check_codelen('%s/codelen_comp%d_deriv.dat' % (out_dir, comp), uniq, kind, data, stats)
                probs += rows.check_derivs('%s/derivs_comp%d.dat' % (out_dir, comp), '%s/codelen_comp%d_deriv.dat' % (out_dir, comp), uniq, stats)
            if 'match' in stages:
                probs += rows.check_matches('%s/codelen_matches_comp%d.dat' % (out_dir, comp), allf, matches, stats, kind, data)
                if 'fisher' in stages and not probs:
                    try:
                        chains = rows.read_lines('%s/inv_subs_%d.txt' % (lib, comp))
                    except FileNotFoundError:
                        chains = None
                    if chains is not None:
                        probs += rows.check_identity_variants('%s/codelen_matches_comp%d.dat' % (out_dir, comp),
                                                              '%s/codelen_comp%d_deriv.dat' % (out_dir, comp),
                                                              '%s/derivs_comp%d.dat' % (out_dir, comp), allf, uniq, matches, chains, stats)
            if 'combine' in stages:
                probs += rows.check_final('%s/final_%d.dat' % (out_dir, comp), allf, kind, data, stats)
        except FileNotFoundError as e:
            probs.append(('missing-output', os.path.basename(str(e.filename))))
        left = sorted(os.listdir(temp_dir)) if os.path.isdir(temp_dir) else []
        if left:
            probs.append(('temp-files-left', left[:4]))
        out['out_hashes'] = file_hashes(out_dir)
        # ---- deterministic stages re-run by one rank on the same inputs ----
        if args.get('cmp', True) and not probs and res['P'] > 1 and 'fisher' in stages:
            like2 = dict(like)
            if like['cls'] in ('Gauss', 'Poisson'):
                like2['data_dir'] = like['data_dir'] + '_cmp'
                os.makedirs(scratch + '/' + like2['data_dir'])
                shutil.copy(scratch + '/' + like['data_dir'] + '/' + like['data_file'], scratch + '/' + like2['data_dir'] + '/' + like['data_file'])
                out2, _ = like_paths(scratch, like2)
                os.makedirs(out2)
                shutil.copy('%s/negloglike_comp%d.dat' % (out_dir, comp), out2)
                st2 = [s for s in stages if s != 'test_all']
                if wf:
                    # the (scaled) second derivatives are an input as well: only the stages after them are re-run
                    for fn in STAGE_FILES['fisher']:
                        shutil.copy('%s/%s' % (out_dir, fn % comp), out2)
                    st2 = [s for s in st2 if s != 'fisher']
                a2 = dict(args, P=1, policy={'kind': 'lowest'}, plan=None, script=None)
                res2 = run_world(world_spec(a2, fit_program(like2, comp, st2, {})), scratch)
                if res2['violation'] is not None:
                    probs.append(('cmp-world-failed', res2['violation']['sig']))
                else:
                    h2 = file_hashes(out2)
                    for st in st2:
                        bad = [f % comp for f in STAGE_FILES[st] if f % comp != 'results_pretty_%d.txt' % comp
                               and h2.get(f % comp) != out['out_hashes'].get(f % comp)]
                        if bad:
                            probs.append(('differs-from-1-rank-run-on-same-inputs', st, bad))
                            break
                    stats['cmp_files'] = len(h2)
    out['probs'] = [list(map(str, p)) for p in probs][:10]
    out['sig'] = ('fit-output:%s:%s' % (probs[0][0], probs[0][1])) if probs else None
    out['stats'] = stats
    if args.get('tail'):
        try:
            out['stdout_tail'] = open(scratch + '/rank0.out').read()[-int(args['tail']):]
        except Exception:
            pass
    return out


# ------------------------------------------------------------------------------------------
# C06: combine_DL on synthetic result tables
# ------------------------------------------------------------------------------------------
def gen_table(rng, big=False):
    U = rng.randint(2, 40)
    N = rng.randint(max(U, 2), 4 * U)
    if big:
        # more than 1000 ranked uniques with a flat description-length landscape
        U = rng.randint(1001, 1300)
        N = rng.randint(U, U + 400)
    idx = [rng.randrange(U) for _ in range(N)]
    mode = rng.random()
    if big:
        mode = 0.0
    if mode < 0.4:            # surjection: every unique has a variant
        for u in range(U):
            idx[rng.randrange(N)] = u
    elif mode < 0.6:          # concentrate on few uniques: many without variants
        keep = rng.sample(range(U), max(1, U // 3))
        idx = [rng.choice(keep) for _ in range(N)]
    grid = [1.5, 2.0, 2.0, 3.25, 10.0, 10.0, 7.5]
    pal = grid + [float('inf'), float('nan')]
    rows = []
    prev_nll = []
    npar = rng.choice([4, 4, 4, 5])
    for i in range(N):
        c = rng.random()
        if c < 0.2 and prev_nll:
            nll = rng.choice(prev_nll)            # exact repeat of an earlier likelihood
        elif c < 0.32 and prev_nll:
            # near repeat: differs in the 7th/8th significant digit (distinct after '%.7e' formatting)
            b = rng.choice(prev_nll)
            nll = float('%.7e' % (b * (1 + rng.choice([1, 2, 5, -1, -3]) * 10.0 ** rng.choice([-7, -6])))) if b else 1e-7
        elif c < 0.6:
            nll = rng.choice(pal)
        elif big:
            nll = round(rng.uniform(5, 9), 5)
        else:
            nll = round(rng.uniform(0, 20), rng.choice([0, 1, 3]))
        if nll == nll and nll != float('inf'):
            prev_nll.append(nll)
        cl = rng.choice([0.0, -0.0, 0.5, 1.0, 2.0, 3.0, float('inf'), float('nan'), round(rng.uniform(-2, 6), 2)])
        if big and rng.random() < 0.97:
            cl = rng.choice([0.0, 0.5, 1.0, 2.0, round(rng.uniform(-1, 2), 2)])      # (almost) everything finite: > 1000 ranked rows
        rows.append([nll, cl, float(idx[i])] + [rng.choice([0.0, -0.0, 1.0, round(rng.uniform(-3, 3), 4)]) for _ in range(npar)])
    aif = [rng.choice([1.0986123, 2.1972246, 3.2958369, 5.4930614, 2.0]) for _ in range(N)]
    r = rng.random()
    if r < 0.12:
        # description lengths of large magnitude: exp(-DL) under/overflows unless the minimum is subtracted first
        off = rng.choice([800.0, -800.0, 5000.0, -1500.0])
        for row in rows:
            if row[0] == row[0] and abs(row[0]) != float('inf'):
                row[0] = float('%.7e' % (row[0] + off))
    if rng.random() < 0.2:
        # parameters of very small and very large magnitude must survive the per-rank files unchanged
        for row in rows:
            for j in range(3, len(row)):
                if rng.random() < 0.3:
                    row[j] = rng.choice([3.1234567e-13, -2.5e-21, 7.7e-9, 4.2e+17, -1.0e-300])
    # as in real libraries, the same function text can occur on several lines of all_equations (different trees, hence different
    # tree codes, same unique): a fifth of the variants repeat the text of an earlier variant of the same unique
    names = ['f%d(x)' % i for i in range(N)]
    if not big:
        first = {}
        for i in range(N):
            u = idx[i]
            if u in first and rng.random() < 0.2:
                names[i] = names[first[u]]
            first.setdefault(u, i)
    return dict(U=U, N=N, rows=rows, aif=aif, idx=idx, names=names)


def combine_world(args, scratch):
    import numpy as np
    from oracles import rank_model
    os.makedirs(scratch, exist_ok=True)
    make_farm(scratch, args.get('canary'), args.get('repo'))
    comp = int(args.get('compl', 3))
    case = gen_table(random.Random(int(args['table_seed'])), big=bool(args.get('big')))
    out = {}
    pf = args.get('prefixes') or {}
    fnprior = pf.get('fnprior_prefix', 'aifeyn_')
    final_prefix = pf.get('final_prefix', 'final_')

    def write_inputs(data_dir):
        lib = libdir(scratch, 'synth', comp)
        os.makedirs(lib, exist_ok=True)
        with open('%s/unique_equations_%d.txt' % (lib, comp), 'w') as f:
            f.write(''.join('u%d(x)\n' % i for i in range(case['U'])))
        with open('%s/all_equations_%d.txt' % (lib, comp), 'w') as f:
            f.write(''.join(nm + '\n' for nm in case['names']))
        np.savetxt('%s/%s%d.txt' % (lib, fnprior, comp), np.array(case['aif']))
        od = '%s/%s/fitting/output/output_run' % (scratch, data_dir)
        os.makedirs(od)
        os.makedirs('%s/%s/fitting/output/partial_run' % (scratch, data_dir))
        np.savetxt('%s/codelen_matches_comp%d.dat' % (od, comp), np.array(case['rows']), fmt='%.7e')
        np.savetxt('%s/%s/data.txt' % (scratch, data_dir), np.array([[1., 1., 1.], [2., 2., 1.]]))
        return lib, od
    lib, od = write_inputs('user')
    like = dict(name='L', cls='Gauss', data_file='data.txt', run_name='run', data_dir='user', fn_set='synth', attrs=pf)
    prog = [['like', like], ['fit', dict(stage='combine', comp=comp, like='L')]]
    res = run_world(world_spec(args, prog), scratch)
    out = slim(res, keep_choices=bool(args.get('keep_choices', True)))
    probs, stats = [], {}
    if res['violation'] is None and res['diverged'] is None:
        uniq, allf, aif, rows = rank_model.parse_inputs(lib, od, comp, fnprior)
        try:
            probs, stats = rank_model.check_final('%s/%s%d.dat' % (od, final_prefix, comp), uniq, allf, aif, rows)
        except FileNotFoundError as e:
            probs = [('missing-output', os.path.basename(str(e.filename)))]
        left = sorted(os.listdir(os.path.dirname(od) + '/partial_run'))
        if left:
            probs.append(('temp-files-left', left[:4]))
        # the sequential run as reference (byte equality unless DL ties make the order a free choice)
        if not probs and res['P'] > 1 and stats.get('ties', 0) == 0:
            lib2, od2 = write_inputs('user1')
            like2 = dict(like, data_dir='user1')
            a2 = dict(args, P=1, policy={'kind': 'lowest'}, script=None)
            res2 = run_world(world_spec(a2, [['like', like2], ['fit', dict(stage='combine', comp=comp, like='L')]]), scratch)
            if res2['violation'] is not None:
                probs.append(('cmp-world-failed', res2['violation']['sig']))
            else:
                h1, h2 = file_hashes(od), file_hashes(od2)
                f = '%s%d.dat' % (final_prefix, comp)
                if h1.get(f) != h2.get(f):
                    probs.append(('differs-from-1-rank-run', f))
                stats['cmp'] = 1
    out['probs'] = [list(map(str, p)) for p in probs][:10]
    out['sig'] = ('final-table:%s' % probs[0][0]) if probs else None
    out['stats'] = stats
    out['table'] = dict(U=case['U'], N=case['N'])
    if args.get('sample'):
        out['table_sample'] = dict(U=case['U'], N=case['N'], first_rows=case['rows'][:4], first_index=case['idx'][:12])
    return out


# ------------------------------------------------------------------------------------------
# C17: load_subs round trip on P ranks + inverse-pair cancellation
# ------------------------------------------------------------------------------------------
def templates_world(args, scratch):
    os.makedirs(scratch, exist_ok=True)
    res = run_world(world_spec(dict(args, P=1), [['subs_templates', dict(max_param=int(args['max_param']), ints=args['ints'])]]), scratch)
    out = slim(res, keep_choices=False)
    out['templates'] = (res['ranks'][0]['out'] or {}).get('templates') if res['violation'] is None else None
    return out


def subs_world(args, scratch):
    import csv
    from oracles import subs_model
    os.makedirs(scratch + '/user', exist_ok=True)
    make_farm(scratch, args.get('canary'), args.get('repo'))
    rows = args['rows']
    with open(scratch + '/user/subs.txt', 'w') as f:
        csv.writer(f, delimiter=';').writerows(rows)
    prog = []
    for ci, (us, bc) in enumerate(args.get('pre_calls') or []):
        # earlier calls in the same processes with other flags (generation reads with use_sympy=False, matching with True)
        prog.append(['load_subs', dict(key='pre%d' % ci, fname='user/subs.txt', max_param=int(args['max_param']), use_sympy=bool(us), bcast_res=bool(bc))])
    prog.append(['load_subs', dict(key='k', fname='user/subs.txt', max_param=int(args['max_param']),
                                   use_sympy=bool(args['use_sympy']), bcast_res=bool(args['bcast_res']))])
    chains = args.get('chains') or []
    if chains:
        prog.append(['simp_inv', dict(key='c', chains=chains, max_param=int(args['max_param']))])
    res = run_world(world_spec(args, prog), scratch)
    out = slim(res, keep_choices=bool(args.get('keep_choices', True)))
    probs = []
    stats = dict(rows=len(rows), steps=sum(len(r) for r in rows), chains=len(chains))
    if res['violation'] is None and res['diverged'] is None:
        for ci, (us, bc) in enumerate(args.get('pre_calls') or []):
            lp = [rk['out'].get('load_subs', {}).get('pre%d' % ci) for rk in res['ranks']]
            for r, l in enumerate(lp):
                if bc or r == 0:
                    for p in subs_model.check_loaded(rows, l):
                        probs.append((p[0], 'pre-call%d-rank%d' % (ci, r)) + tuple(p[1:]))
                if probs:
                    break
        loaded = [rk['out'].get('load_subs', {}).get('k') for rk in res['ranks']]
        for r, l in enumerate(loaded):
            if probs:
                break
            if not args['bcast_res'] and r != 0:
                if l is not None:
                    probs.append(('non-root-got-result', r))
                continue
            for p in subs_model.check_loaded(rows, l):
                probs.append((p[0], 'rank%d' % r) + tuple(p[1:]))
            if probs:
                break
        if not probs and args['bcast_res'] and any(l != loaded[0] for l in loaded):
            probs.append(('ranks-disagree',))
        if not probs and args['use_sympy']:
            ap = res['ranks'][0]['out'].get('load_subs_applied', {}).get('k')
            if ap is not None:
                for p in subs_model.check_applied(rows, ap, int(args['max_param'])):
                    probs.append(p)
        import hashlib
        out['result_digest'] = hashlib.sha256(repr(loaded[0]).encode()).hexdigest()[:24]
        if chains and not probs:
            red = res['ranks'][0]['out'].get('simp_inv', {}).get('c')
            k = int(args['max_param'])
            for ch, rd in zip(chains, red):
                rd = rd or []
                if 'nan' in ch:
                    if 'nan' not in rd:
                        probs.append(('nan-dropped', ch, rd))
                    continue
                if 'nan' in rd or not subs_model.compose_equal(ch, rd, k):
                    probs.append(('composition-changed', ch, rd))
                    break
    out['probs'] = [list(map(str, p)) for p in probs][:8]
    out['sig'] = ('subs:%s' % probs[0][0]) if probs else None
    out['stats'] = stats
    return out


# ------------------------------------------------------------------------------------------
# C17 in situ: a generation followed, in the same job, by load_subs of the map file it wrote
# ------------------------------------------------------------------------------------------
def gen_load_world(args, scratch):
    """P ranks generate a library and then - same processes, no barrier of the harness in between - load the final
    parameter-map file, as a script that generates and then matches does.  Oracles: (a) every entitled rank gets the rows of
    the file as it stands when the world has ended (row count, order, nan, keys, values); (b) the map file as the combining
    stage wrote it (snapshot at the entry of check_results) composes, function by function, to the concatenation of the
    per-round records: pair cancellation observed where ESR applies it."""
    import csv
    import re
    from oracles import subs_model
    os.makedirs(scratch, exist_ok=True)
    runname, compl = args['runname'], int(args['compl'])
    kw = dict(runname=runname, compl=compl)
    if args.get('basis') is not None:
        kw['basis'] = args['basis']
    rel = 'pkg/esr/function_library/%s/compl_%d/inv_subs_%d.txt' % (runname, compl, compl)
    mp_ = (compl + 1) // 2
    prog = [['gen', kw], ['load_subs', dict(key='k', fname=rel, max_param=mp_, use_sympy=bool(args.get('use_sympy')), bcast_res=True)]]
    res = run_world(world_spec(args, prog), scratch)
    out = slim(res, keep_choices=bool(args.get('keep_choices', True)))
    probs, stats = [], {}
    d = libdir(scratch, runname, compl)
    if res['violation'] is None and res['diverged'] is None:
        with open(scratch + '/' + rel) as f:
            rows = [r for r in csv.reader(f, delimiter=';')]
        stats['rows'] = len(rows)
        loaded = [rk['out'].get('load_subs', {}).get('k') for rk in res['ranks']]
        for r, l in enumerate(loaded):
            for p in subs_model.check_loaded(rows, l):
                probs.append((p[0], 'in-situ-rank%d' % r) + tuple(p[1:]))
            if probs:
                break
        nround = None
        try:
            m_ = re.findall(r'Round (\d+) of (\d+)', open(scratch + '/rank0.out').read())
            if m_:
                nround = int(m_[-1][1])
        except Exception:
            pass
        snap = '%s/precheck/%s__%d.txt' % (scratch, runname, compl)
        if not probs and nround and os.path.exists(snap):
            for p in libsound.check_precheck(d, compl, snap, nround, random.Random(int(args.get('oracle_seed', 1)) + 1), stats=stats):
                probs.append((p[0], 'combining-stage') + tuple(p[1:]))
    out['probs'] = [list(map(str, p)) for p in probs][:8]
    out['sig'] = ('subs:%s' % probs[0][0]) if probs else None
    out['stats'] = stats
    return out


# ------------------------------------------------------------------------------------------
# C16: histories
# ------------------------------------------------------------------------------------------
STAGE_INPUTS = {
    'test_all': [],
    'fisher': ['negloglike_comp%d.dat'],
    'match': ['negloglike_comp%d.dat', 'derivs_comp%d.dat'],
    'combine': ['codelen_matches_comp%d.dat'],
}
STAGE_ORDER = ['test_all', 'fisher', 'match', 'combine']


def history_world(args, scratch):
    """Run the history segments (each a world on the same scratch, new processes per segment), the
    last op being the observed call; then compare what the observed call wrote with a fresh world."""
    import numpy as np
    os.makedirs(scratch, exist_ok=True)
    H = scratch + '/h'
    os.makedirs(H)
    make_farm(H, args.get('canary'), args.get('repo'))
    for dd, spec in (args.get('data') or {}).items():
        os.makedirs(H + '/' + dd, exist_ok=True)
        np.savetxt(H + '/' + dd + '/' + spec['file'], make_data(spec['cls'], int(spec['seed']), int(spec['npts'])), fmt='%.6f')
    if args.get('synth_lib'):
        write_synth_lib(libdir(H, 'synth11', int(args['synth_lib'])), int(args['synth_lib']), int(args.get('seed', 0)) % 977)
    obs = args['observed']
    out = dict(segments=[], steps=0, digest='', rdigest='', nshared=0, nfs=0, nmpi=0, choices=[], coins=[], violation=None, diverged=None)
    last = None
    import hashlib
    dg = hashlib.sha256()
    for si, seg in enumerate(args['segments']):
        a = dict(args, P=seg['P'], seed=int(args.get('seed', 0)) + si, script=None, plan=seg.get('plan'), op_plans=seg.get('op_plans'),
                 tick_modules=['esr.generation.simplifier'] if (seg.get('plan') or seg.get('op_plans')) else [])
        res = run_world(world_spec(a, seg['program']), H)
        last = res
        out['real_expired'] = out.get('real_expired', 0) + sum(((rk.get('clock') or {}).get('real_expired', 0)) for rk in res['ranks'])
        out['steps'] += res['steps']
        out['nfs'] += res['nfs']
        out['nmpi'] += res['nmpi']
        dg.update(res['digest'].encode())
        out['segments'].append(dict(P=seg['P'], steps=res['steps'], ops=len(seg['program'])))
        if res['violation'] is not None:
            v = dict(res['violation'])
            v['sig'] = 'history-run-failed:' + v['sig']
            v['segment'] = si
            out['violation'] = v
            break
    out['digest'] = dg.hexdigest()
    out['rdigest'] = last['rdigest'] if last else ''
    out['P'] = args['segments'][-1]['P']
    out['ranks'] = []
    probs = []
    if out['violation'] is None:
        comp = int(obs['compl'])
        if obs['kind'] == 'gen':
            d = libdir(H, obs['runname'], comp)
            hs = file_hashes(d)
            out['hashes'] = hs
            ref = args.get('ref_hashes') or {}
            bad = sorted(f for f, h in ref.items() if hs.get(f) != h)
            if bad:
                probs.append(('gen', bad[0], bad))
        else:
            F = scratch + '/f'
            os.makedirs(F)
            make_farm(F, args.get('canary'), args.get('repo'))
            like = dict(obs['like'])
            # the fresh world gets the library as generation wrote it - not what earlier fitting runs left in that directory
            import re
            gen_file = re.compile(r'^(all_equations|unique_equations|trees|orig_trees|extra_trees|aifeyn|orig_aifeyn|extra_aifeyn|matches|'
                                  r'inv_subs|inv_idx)_\d+(_round_\d+)?\.txt$')

            ipe_obs = bool((obs.get('kw') or {}).get('ignore_previous_eqns'))
            wanted = {'compl_%d' % k for k in (range(1, comp + 1) if ipe_obs else [comp])}

            def only_generation_outputs(d, names):
                # ... and only the complexities the observed call is entitled to read: libraries of OTHER complexities generated
                # earlier in the same basis directory are history, not input
                out = []
                for n in names:
                    if os.path.isdir(os.path.join(d, n)):
                        if n.startswith('compl_') and n not in wanted:
                            out.append(n)
                    elif not gen_file.match(n):
                        out.append(n)
                return out
            shutil.copytree(H + '/snap/lib/' + obs['runname'], libdir(F, obs['runname']), ignore=only_generation_outputs)
            if like['cls'] in ('Gauss', 'Poisson'):
                os.makedirs(F + '/' + like['data_dir'])
                shutil.copy(H + '/' + like['data_dir'] + '/' + like['data_file'], F + '/' + like['data_dir'] + '/' + like['data_file'])
            od_h, _ = like_paths(H, like)
            od_f, td_f = like_paths(F, like)
            ins = [f % comp for f in STAGE_INPUTS[obs['stage']]]
            if ins:
                os.makedirs(od_f)
                for f in ins:
                    shutil.copy(H + '/snap/in/' + f, od_f + '/' + f)
            lk = dict(like, name='L')
            kw = dict(stage=obs['stage'], comp=comp, like='L')
            kw.update(obs.get('kw') or {})
            prog = [['like', lk], ['npseed', dict(seed=int(obs['npseed']))], ['fit', kw]]
            a = dict(args, P=obs['P'], seed=int(args.get('seed', 0)) + 1000, script=None, policy={'kind': 'lowest'})
            res2 = run_world(world_spec(a, prog), F)
            if res2['violation'] is not None:
                probs.append(('fresh-run-failed', res2['violation']['sig']))
            else:
                h1, h2 = file_hashes(od_h), file_hashes(od_f)
                out['hashes'] = h1
                # a stage must not rewrite its own inputs (otherwise a repeated identical call sees other inputs)
                hin = file_hashes(H + '/snap/in')
                for f in ins:
                    if hin.get(f) != h1.get(f):
                        probs.append(('fit:' + obs['stage'], 'input-modified:' + f, [f]))
                bad = sorted(f % comp for f in STAGE_FILES[obs['stage']] if h1.get(f % comp) != h2.get(f % comp))
                if obs['stage'] == 'test_all' and (obs.get('kw') or {}).get('ignore_previous_eqns'):
                    pf = 'previous_eqns_%d.txt' % comp
                    if file_hashes(libdir(H, obs['runname'], comp)).get(pf) != file_hashes(libdir(F, obs['runname'], comp)).get(pf):
                        bad.append(pf)
                if bad:
                    probs.append(('fit:' + obs['stage'], bad[0], bad))
    if out.get('real_expired'):
        probs = []      # a real-time cap expiry makes library bytes load dependent: no byte comparison
    out['probs'] = [list(map(str, p)) for p in probs]
    out['sig'] = ('history-dep:%s:%s' % (probs[0][0], probs[0][1])) if probs else None
    return out


# ------------------------------------------------------------------------------------------
# self-test: the injector on a small victim module
# ------------------------------------------------------------------------------------------
def victim_world(args, scratch):
    os.makedirs(scratch, exist_ok=True)
    a = dict(args, P=1, tick_modules=['esr.generation.simplifier', 'victim_mod'])
    res = run_world(world_spec(a, [['victim', dict(n=int(args.get('n', 2)))]]), scratch)
    out = slim(res, keep_choices=False)
    out['log'] = (res['ranks'][0]['out'] or {}).get('victim')
    return out
