"""Job functions executed inside zygote workers.  Each builds a scratch dir, runs one or more
worlds and evaluates oracles; returns plain data."""
import hashlib
import os
import random
import shutil

from esrsim.farm import libdir, make_farm
from esrsim.world import rle, run_world
from oracles import libsound

GEN_FILES = ('orig_trees', 'extra_trees', 'trees', 'all_equations', 'orig_aifeyn', 'extra_aifeyn', 'aifeyn')
SOUND_FILES = ('unique_equations', 'matches', 'inv_subs')


def file_hashes(d):
    out = {}
    if not os.path.isdir(d):
        return out
    for f in sorted(os.listdir(d)):
        p = d + '/' + f
        if os.path.isfile(p):
            with open(p, 'rb') as fh:
                out[f] = hashlib.sha256(fh.read()).hexdigest()[:24]
    return out


def slim(res, keep_choices=True):
    """Transportable summary of a world result."""
    out = dict(violation=res['violation'], diverged=res['diverged'], steps=res['steps'], digest=res['digest'],
               rdigest=res['rdigest'], nshared=res['nshared'], nfs=res['nfs'], nmpi=res['nmpi'], P=res['P'],
               coins=res['coins'])
    if keep_choices:
        out['choices'] = rle(res['choices'])
    out['ranks'] = [dict(status=r['status'], exc=r['exc'], clock=r['clock'], out=r['out'], nev=r['nev'],
                         ncoll=r['ncoll'], blocked=r['blocked'], tb=(r['tb'] or '')[-1200:] if r['tb'] else None)
                    for r in res['ranks']]
    if res.get('trace') is not None:
        out['trace'] = res['trace']
    return out


def world_spec(args, program):
    spec = dict(P=int(args.get('P', 1)), program=program, seed=int(args.get('seed', 0)),
                policy=args.get('policy') or {'kind': 'lowest'}, eager=float(args.get('eager', 0.5)),
                root_copy=bool(args.get('root_copy', False)), npseed=int(args.get('npseed', 0)),
                plan=args.get('plan'), profile=bool(args.get('profile')), profile_calls=bool(args.get('profile_calls')),
                tick_modules=args.get('tick_modules') or [], canary=args.get('canary'), repo=args.get('repo'),
                trace=bool(args.get('trace')), script=args.get('script'))
    if args.get('max_steps'):
        spec['max_steps'] = int(args['max_steps'])
    return spec


def gen_world(args, scratch):
    """One generation world + LIB-SOUND + file hashes."""
    os.makedirs(scratch, exist_ok=True)
    runname, compl = args['runname'], int(args['compl'])
    kw = dict(runname=runname, compl=compl)
    if args.get('basis') is not None:
        kw['basis'] = args['basis']
    kw.update(args.get('gen_kw') or {})
    program = list(args.get('pre') or []) + [['gen', kw]]
    res = run_world(world_spec(args, program), scratch)
    out = slim(res, keep_choices=bool(args.get('keep_choices', True)))
    if args.get('profile'):
        for rk in out['ranks']:
            prof = (rk.get('clock') or {}).get('profile')
            if prof is not None:
                rk['clock']['profile'] = [[b, nt, nc, hashlib.sha256(repr((site, path)).encode()).hexdigest()[:12], list(site) if site else None]
                                          for b, nt, nc, path, site in prof]
    d = libdir(scratch, runname, compl)
    out['hashes'] = file_hashes(d)
    if res['violation'] is None and res['diverged'] is None:
        if args.get('ref_hashes'):
            out['diff'] = sorted(f for f, h in args['ref_hashes'].items() if out['hashes'].get(f) != h)
        if args.get('cmp_hashes'):
            ch = args['cmp_hashes']
            out['cmpdiff'] = sorted(f for f in set(ch) | set(out['hashes']) if ch.get(f) != out['hashes'].get(f))
    if res['violation'] is None and res['diverged'] is None and args.get('oracle', True):
        stats = {}
        try:
            probs = libsound.check_library(d, compl, random.Random(int(args.get('oracle_seed', 1))), stats=stats)
        except FileNotFoundError as e:
            probs = [('missing-file', os.path.basename(str(e.filename)))]
        out['probs'] = [list(map(str, p)) for p in probs if p[0] != 'inconclusive'][:10]
        out['sig'] = libsound.classify(probs)
        out['stats'] = stats
        try:
            out['nfun'] = stats.get('functions')
            with open('%s/unique_equations_%d.txt' % (d, compl)) as f:
                out['nuniq'] = len(f.read().splitlines())
        except Exception:
            pass
    if args.get('save_lib'):
        dst = args['save_lib']
        if os.path.isdir(d):
            os.makedirs(os.path.dirname(dst), exist_ok=True)
            shutil.copytree(d, dst, dirs_exist_ok=True)
    if args.get('tail'):
        try:
            out['stdout_tail'] = open(scratch + '/rank0.out').read()[-int(args['tail']):]
        except Exception:
            pass
    return out
