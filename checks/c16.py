"""C16 - results do not depend on earlier runs.

Generated histories: 0..5 earlier operations (generation of other bases / other complexities /
the identical call; complete fitting pipelines on the same or another likelihood; process
restarts with another rank count) followed by the observed call - a generation or one fitting
stage with fixed inputs and np.random.seed set immediately before it.  Oracle: every file the
observed call writes is byte-identical to what a fresh world (new processes forked from a zygote
that never ran ESR code or the warm-up, empty directories, same hash seed, same P, same seed)
writes."""
import time

from esrsim.pool import Pool
from . import base, configs

PID = 'C16'
JOB = 'checks.jobs:history_world'
JOB_GEN = 'checks.jobs:gen_world'
STAGES = ['test_all', 'fisher', 'match', 'combine']
OBS_CONFIGS = [('core_maths', 3), ('core_maths', 4), ('osc_maths', 3), ('base_e_maths', 3), ('core_maths', 2), ('ext_maths', 2), ('core_maths', 5), ('core_maths', 1),
               ('verif_plain', 3), ('verif_plain2', 3), ('verif_plain2', 4), ('base_e_maths', 4)]
OTHER = [('ext_maths', 3), ('osc_maths', 2), ('base10_maths', 3), ('keep_duplicates', 2), ('core_maths', 5), ('base_e_maths', 2), ('ext_maths', 1),
         ('osc_maths', 4), ('base_e_maths', 3), ('keep_duplicates', 3), ('base_e_maths', 4)]
FIT_OPTS = dict(Niter_params=[2], Nconv_params=[1])
# a basis without binary operators has two functions per complexity, so complexity 10 is generated in seconds: the only
# affordable way to have a compl_10 directory next to compl_2..compl_9 in one library
RUN_BASIS = {'verif_tiny': [["x", "a"], ["inv"], []],
             # operator names that are NOT in ESR's own symbol table ("sqrt", "log": legal basis entries, tests/test_esr.py uses
             # "sqrt"): generation parses them with sympy's functions, the fitting stages with ESR's |.|-protected ones - so a
             # symbol table leaking from one stage into the other changes what a later generation writes
             'verif_plain': [["x", "a"], ["sqrt", "log", "inv"], ["+", "*"]],
             'verif_plain2': [["x", "a"], ["sqrt", "exp"], ["*", "pow"]]}
# explicit argument sets of test_all.main other than the harness default (documented arguments; the defaults are mutable lists)
ARG_SETS = [dict(Niter_params=[2, 2]), dict(Niter_params=[3, 2], Nconv_params=[1, 1], pmin=0.5, pmax=2), dict(Niter_params=[2], Nconv_params=[1], tmax=3, log_opt=True),
            dict(Niter_params=[1, 1]), {}]
API_CALLS = ['string_to_node', 'string_to_node_default', 'aifeyn', 'single_function', 'fit_from_string', 'run_sympify']
GEN_OPTS = [dict(track_memory=True), dict(search_tmax=7, expand_tmax=2), dict(track_memory=True, seed=99), dict(seed=7)]


def basis_of(rn):
    return RUN_BASIS.get(rn) or configs.SHIPPED[rn]


def gen_op(rn, c, **kw):
    d = dict(runname=rn, compl=c, **kw)
    if rn in RUN_BASIS:
        d['basis'] = RUN_BASIS[rn]
    return ['gen', d]


DIRECTED = []
for _cfg in (('core_maths', 3), ('core_maths', 4), ('osc_maths', 3)):
    for _P in (1, 2):
        DIRECTED.append(dict(cfg=_cfg, kind='gen', P_obs=_P, ops=['gen_identical']))
        DIRECTED.append(dict(cfg=_cfg, kind='gen', P_obs=_P, ops=['gen_same_basis', 'gen_other', 'gen_identical', 'gen_same_basis']))
    DIRECTED.append(dict(cfg=_cfg, kind='gen', P_obs=1, P_first=3, ops=['gen_identical', 'restart:2', 'gen_identical', 'restart:1']))
for _cfg in (('core_maths', 3), ('core_maths', 4), ('core_maths', 5)):
    for _k in range(3):
        DIRECTED.append(dict(cfg=_cfg, kind='gen', P_obs=1, ops=['gen_faulty']))
for _st in STAGES:
    DIRECTED.append(dict(cfg=('core_maths', 3), kind='fit', stage=_st, P_obs=1, P_first=3, ipe=False, ops=['pipe_same', 'restart:1']))
    DIRECTED.append(dict(cfg=('core_maths', 3), kind='fit', stage=_st, P_obs=2, P_first=3, ipe=False, ops=['pipe_same', 'pipe_same', 'restart:2']))
    DIRECTED.append(dict(cfg=('core_maths', 3), kind='fit', stage=_st, P_obs=1, P_first=2, ipe=False, like_oth=2, ops=['pipe_other_like', 'pipe_same']))
    DIRECTED.append(dict(cfg=('osc_maths', 3), kind='fit', stage=_st, P_obs=1, P_first=1, ipe=True, ops=['pipe_other_basis', 'pipe_same']))
    DIRECTED.append(dict(cfg=('core_maths', 3), kind='fit', stage=_st, P_obs=2, P_first=2, ipe=True, ops=['pipe_other_basis', 'gen_other']))
for _st in STAGES:
    # an earlier run used ignore_previous_eqns (and left previous_eqns_<n>.txt in the library), the observed default run does not
    DIRECTED.append(dict(cfg=('core_maths', 3), kind='fit', stage=_st, P_obs=1, P_first=1, ipe=False, ipe_seq=[True, False, False], ops=['pipe_same']))
    DIRECTED.append(dict(cfg=('core_maths', 3), kind='fit', stage=_st, P_obs=1, P_first=2, ipe=False, ipe_seq=[True, False, False], ops=['pipe_other_like', 'restart:1']))
    # ... and the other way round
    DIRECTED.append(dict(cfg=('core_maths', 3), kind='fit', stage=_st, P_obs=2, P_first=2, ipe=False, ipe_seq=[False, True, True], ops=['pipe_same']))
for _st in STAGES:
    DIRECTED.append(dict(cfg=('core_maths', 3), kind='fit', stage=_st, P_obs=1, P_first=1, ipe=False, ipe_mode='mixed', ops=['pipe_same', 'pipe_same', 'restart:1']))
    DIRECTED.append(dict(cfg=('core_maths', 4), kind='fit', stage=_st, P_obs=1, P_first=1, ipe=False, mock=True, rebuild=True, ops=['gen_same_basis', 'pipe_same', 'pipe_same']))
    DIRECTED.append(dict(cfg=('core_maths', 3), kind='fit', stage=_st, P_obs=2, P_first=2, ipe=False, mock=True, rebuild=True, ops=['pipe_same', 'pipe_other_basis']))
for _cfg in (('core_maths', 3), ('core_maths', 4)):
    for _P in (1, 2):
        DIRECTED.append(dict(cfg=_cfg, kind='gen', P_obs=_P, P_first=_P, ops=['gen_faulty_inproc']))
        DIRECTED.append(dict(cfg=_cfg, kind='gen', P_obs=_P, P_first=_P, ops=['gen_faulty_inproc', 'gen_faulty_inproc']))
for _n in (2, 3):
    for _st in STAGES:
        DIRECTED.append(dict(cfg=('verif_tiny', _n), kind='fit', stage=_st, P_obs=1, P_first=1, ipe=True, ops=['gen_high']))
    DIRECTED.append(dict(cfg=('verif_tiny', _n), kind='fit', stage='test_all', P_obs=2, P_first=2, ipe=True, ops=['gen_high', 'pipe_same']))
for _P in (1, 2):
    DIRECTED.append(dict(cfg=('core_maths', 3), kind='fit', stage='combine', P_obs=_P, P_first=_P, ipe=False, data_corrupted=True, prior_changed=False, ops=['pipe_same']))
    DIRECTED.append(dict(cfg=('core_maths', 1), kind='fit', stage='combine', P_obs=_P, P_first=1, ipe=False, data_corrupted=True, prior_changed=False, ops=['pipe_same', 'pipe_same']))
for _cfg in (('core_maths', 3), ('core_maths', 4)):
    DIRECTED.append(dict(cfg=_cfg, kind='gen', P_obs=1, gen_seed=0, ops=['gen_same_basis', 'pipe_same']))
    DIRECTED.append(dict(cfg=_cfg, kind='gen', P_obs=2, gen_seed=0, ops=['gen_identical']))
for _st in STAGES:
    DIRECTED.append(dict(cfg=('core_maths', 3), kind='fit', stage=_st, P_obs=1, P_first=1, ipe=False, mock=False, relative=True, ops=['gen_same_basis', 'gen_other']))
DIRECTED.append(dict(cfg=('core_maths', 3), kind='fit', stage='combine', P_obs=1, P_first=1, ipe=False, prior_changed=True, ops=['pipe_same']))
DIRECTED.append(dict(cfg=('core_maths', 4), kind='fit', stage='combine', P_obs=2, P_first=2, ipe=False, prior_changed=True, ops=['pipe_same', 'pipe_other_like']))
for _st in STAGES:
    DIRECTED.append(dict(cfg=('core_maths', 3), kind='fit', stage=_st, P_obs=1, P_first=1, ipe=False, plot=True, ops=['pipe_same']))
    DIRECTED.append(dict(cfg=('core_maths', 4), kind='fit', stage=_st, P_obs=2, P_first=2, ipe=False, plot=True, ops=['pipe_same', 'pipe_other_like']))
for _st in STAGES:
    DIRECTED.append(dict(cfg=('core_maths', 1), kind='fit', stage=_st, P_obs=1, P_first=1, ipe=False, ops=['pipe_synth', 'pipe_synth']))
    DIRECTED.append(dict(cfg=('core_maths', 1), kind='fit', stage=_st, P_obs=2, P_first=3, ipe=False, ops=['pipe_synth', 'restart:2']))
for _st in STAGES:
    DIRECTED.append(dict(cfg=('core_maths', 3), kind='fit', stage=_st, P_obs=1, P_first=2, ipe=False, ops=['pipe_synth']))
DIRECTED.append(dict(cfg=('core_maths', 4), kind='gen', P_obs=1, P_first=1, ops=['pipe_synth']))
DIRECTED.append(dict(cfg=('core_maths', 3), kind='fit', stage='test_all', P_obs=1, P_first=1, ipe=True, ops=['pipe_other_basis']))
DIRECTED.append(dict(cfg=('core_maths', 4), kind='fit', stage='test_all', P_obs=1, P_first=1, ipe=True, ops=['pipe_other_basis', 'pipe_other_like']))

# --- round 8: other public entry points, other argument sets, operator names outside ESR's symbol table ---
for _cfg in (('verif_plain', 3), ('verif_plain2', 3), ('core_maths', 3)):
    DIRECTED.append(dict(cfg=_cfg, kind='gen', P_obs=1, P_first=1, ops=['pipe_same']))
    DIRECTED.append(dict(cfg=_cfg, kind='gen', P_obs=1, P_first=1, ops=['gen_same_basis', 'api:run_sympify']))
    DIRECTED.append(dict(cfg=_cfg, kind='gen', P_obs=2, P_first=2, ops=['api:fit_from_string', 'api:string_to_node']))
for _cfg in (('core_maths', 3), ('core_maths', 4), ('verif_plain', 3)):
    for _w in API_CALLS:
        DIRECTED.append(dict(cfg=_cfg, kind='gen', P_obs=1, P_first=1, ops=['api:' + _w]))
for _st in STAGES:
    DIRECTED.append(dict(cfg=('core_maths', 3), kind='fit', stage=_st, P_obs=1, P_first=1, ipe=False, ops=['api:string_to_node', 'api:single_function', 'api:aifeyn']))
    DIRECTED.append(dict(cfg=('verif_plain', 3), kind='fit', stage=_st, P_obs=1, P_first=1, ipe=False, ops=['api:fit_from_string', 'gen_other']))
for _k in range(len(ARG_SETS)):
    # the observed test_all call with the DEFAULT arguments after earlier calls with explicit ones (small library: the default
    # iteration counts are large)
    DIRECTED.append(dict(cfg=('core_maths', 2), kind='fit', stage='test_all', P_obs=1, P_first=1, ipe=False, obs_defaults=True, ops=['pipe_args:%d' % _k]))
    DIRECTED.append(dict(cfg=('core_maths', 3), kind='fit', stage='test_all', P_obs=1, P_first=1, ipe=False, ops=['pipe_args:%d' % _k, 'pipe_args:%d' % ((_k + 1) % len(ARG_SETS))]))
DIRECTED.append(dict(cfg=('verif_tiny', 3), kind='fit', stage='test_all', P_obs=2, P_first=2, ipe=False, obs_defaults=True, ops=['pipe_args:0', 'pipe_args:3']))
for _cfg in (('osc_maths', 3), ('core_maths', 3)):
    # ... on libraries with multi-modal likelihood surfaces (sin(a0*x), pow(x,a0)): there the number of restarts and the
    # convergence count decide which optimum is reported
    DIRECTED.append(dict(cfg=_cfg, kind='fit', stage='test_all', P_obs=1, P_first=1, ipe=False, mock=False, obs_defaults=True, ops=['pipe_args:0']))
    DIRECTED.append(dict(cfg=_cfg, kind='fit', stage='test_all', P_obs=2, P_first=2, ipe=False, mock=False, obs_defaults=True, ops=['pipe_args:3', 'pipe_args:1']))
for _cfg in (('base_e_maths', 4), ('base_e_maths', 3), ('core_maths', 4)):
    # the observed generation is NOT preceded by a reseed: the earlier fits leave numpy's global generator in another state
    DIRECTED.append(dict(cfg=_cfg, kind='gen', P_obs=1, P_first=1, reseed=False, ops=['pipe_same']))
    DIRECTED.append(dict(cfg=_cfg, kind='gen', P_obs=2, P_first=2, reseed=False, ops=['gen_same_basis', 'pipe_same']))
for _k in range(len(GEN_OPTS)):
    DIRECTED.append(dict(cfg=('core_maths', 3), kind='gen', P_obs=1, P_first=1, ops=['gen_opts:%d' % _k]))
    DIRECTED.append(dict(cfg=('core_maths', 4), kind='gen', P_obs=2, P_first=2, ops=['gen_opts:%d' % _k, 'gen_same_basis']))


def sigs_of(args, r):
    s = set()
    if r is None:
        return s
    if r.get('violation'):
        s.add(r['violation']['sig'])
    if r.get('sig'):
        s.add(r['sig'])
    return s


def pipeline(like_name, comp, upto=None, opts=None, plot=False):
    prog = []
    for st in STAGES:
        if st == upto:
            break
        kw = dict(stage=st, comp=comp, like=like_name)
        if st == 'test_all':
            kw.update(opts or FIT_OPTS)
        prog.append(['fit', kw])
    if plot and upto is None:
        prog.append(['fit', dict(stage='plot', comp=comp, like=like_name)])      # the plotting stage runs on rank 0 only
    return prog


def draw_history(seed, i, quick, recipe=None):
    rs = base.run_seed(seed, i)
    rng = base.rng_for(rs)
    recipe = recipe or {}
    obs_cfg = rng.choice(OBS_CONFIGS[:4] if rng.random() < 0.8 else OBS_CONFIGS)
    if recipe.get('cfg'):
        obs_cfg = tuple(recipe['cfg'])
    runname, n = obs_cfg
    kind = 'gen' if rng.random() < 0.45 else 'fit'
    kind = recipe.get('kind', kind)
    if kind == 'fit' and n < 3 and not recipe.get('cfg'):
        runname, n = ('core_maths', 3) if rng.random() < 0.6 else ('core_maths', rng.choice([1, 2]))
    P_obs = rng.choice([1, 1, 2])
    P_obs = recipe.get('P_obs', P_obs)
    like_obs = dict(cls='Gauss', data_file='data.txt', run_name='obs', data_dir='user', fn_set=runname)
    if recipe.get('relative', rng.random() < 0.3):
        like_obs['relative'] = True       # a relative data_dir, as in the documentation examples: depends on the current directory
    if recipe.get('mock', rng.random() < 0.2):
        # a likelihood whose prediction does not guard against floating-point exceptions (sqrt of the model)
        like_obs = dict(cls='Mock', nz=320, yfracerr=0.2, fn_set=runname)
    like_oth = rng.choice([dict(cls='Gauss', data_file='data.txt', run_name='oth', data_dir='user2', fn_set=runname),
                           dict(cls='Poisson', data_file='counts.txt', run_name='obs', data_dir='user3', fn_set=runname),
                           dict(cls='Gauss', data_file='data.txt', run_name='oth', data_dir='user', fn_set=runname)])
    data = {'user': dict(cls='Gauss', file='data.txt', seed=rs % 1000, npts=24),
            like_oth['data_dir']: dict(cls=like_oth['cls'], file=like_oth['data_file'], seed=rs % 1000 + (0 if like_oth['data_dir'] == 'user' else 1), npts=24)}
    if like_oth['data_dir'] == 'user':
        data['user'] = dict(cls='Gauss', file='data.txt', seed=rs % 1000, npts=24)
    data.setdefault('user', dict(cls='Gauss', file='data.txt', seed=rs % 1000, npts=24))
    segments = [dict(P=rng.choice([1, 1, 2, 3]), program=[])]
    ipe = rng.random() < 0.35           # test_all with ignore_previous_eqns=True (needs the lower complexities)
    ipe = recipe.get('ipe', ipe)
    if recipe.get('P_first'):
        segments[0]['P'] = recipe['P_first']
    topt = dict(FIT_OPTS, ignore_previous_eqns=True) if ipe else dict(FIT_OPTS)
    other_basis = rng.choice([b for b in ('ext_maths', 'osc_maths', 'base_e_maths', 'core_maths') if b != runname])
    tiny = runname == 'verif_tiny'      # only the basis without binary operators is cheap at complexity 10
    if recipe.get('like_oth') is not None:
        like_oth = [dict(cls='Gauss', data_file='data.txt', run_name='oth', data_dir='user2', fn_set=runname),
                    dict(cls='Poisson', data_file='counts.txt', run_name='obs', data_dir='user3', fn_set=runname),
                    dict(cls='Gauss', data_file='data.txt', run_name='oth', data_dir='user', fn_set=runname)][recipe['like_oth']]
        data[like_oth['data_dir']] = dict(cls=like_oth['cls'], file=like_oth['data_file'], seed=rs % 1000 + (0 if like_oth['data_dir'] == 'user' else 1), npts=24)
    libs = set()
    likes_here = set()
    desc = []
    synth = [0]

    def cur():
        return segments[-1]['program']

    def need_lib(rn, c, lower=False):
        for cc in (range(1, c + 1) if (ipe or lower) else [c]):
            if (rn, cc) not in libs:
                cur().append(gen_op(rn, cc))
                libs.add((rn, cc))

    def need_like(name, lk):
        # users often build a new likelihood object per complexity / per stage call: rebuild it half of the time
        if name not in likes_here or recipe.get('rebuild') or rng.random() < 0.5:
            cur().append(['like', dict(lk, name=name)])
            likes_here.add(name)
    ipe_mode = recipe.get('ipe_mode') or ('all' if ipe else rng.choice(['none', 'none', 'mixed']))

    ipe_seq = list(recipe.get('ipe_seq') or [])

    def op_opts():
        # ignore_previous_eqns is drawn per operation in 'mixed' mode: an earlier run may have used it, the observed one not
        on = ipe if ipe_mode == 'all' else (ipe_mode == 'mixed' and rng.random() < 0.5)
        if recipe.get('ipe_seq') is not None:
            on = ipe_seq.pop(0) if ipe_seq else False
        return dict(FIT_OPTS, ignore_previous_eqns=True) if on else dict(FIT_OPTS)
    nops = rng.randint(0, 5)
    CODES = {'gen_other': 0.1, 'gen_same_basis': 0.3, 'gen_identical': 0.5, 'pipe_same': 0.6, 'pipe_other_like': 0.7, 'pipe_other_basis': 0.8,
             'pipe_synth': 0.88, 'gen_high': 0.883, 'restart': 0.9, 'gen_faulty': 0.95, 'gen_faulty_inproc': 0.985}
    plan_ops = recipe.get('ops')
    for oi in range(len(plan_ops) if plan_ops is not None else nops):
        extra = None
        if plan_ops is not None:
            if plan_ops[oi].split(':')[0] in ('api', 'pipe_args', 'gen_opts'):
                extra = plan_ops[oi]
        elif rng.random() < 0.15:
            extra = rng.choice(['api', 'api', 'pipe_args', 'gen_opts'])
        if extra:
            ek, _, earg = extra.partition(':')
            if ek == 'api':
                # another public entry point of ESR called earlier in the same process
                what = earg or rng.choice(API_CALLS)
                kw_ = dict(what=what)
                if what in ('single_function', 'fit_from_string', 'run_sympify'):
                    need_like('Lobs', like_obs)
                    kw_['like'] = 'Lobs'
                cur().append(['api', kw_])
                desc.append('api ' + what)
            elif ek == 'pipe_args':
                o = dict(ARG_SETS[int(earg)] if earg else rng.choice(ARG_SETS))
                if not o and configs.nfun(basis_of(runname), n) > 30:
                    o = dict(ARG_SETS[0])        # all-default arguments only on small libraries
                need_lib(runname, n)
                need_like('Lobs', like_obs)
                cur().extend(pipeline('Lobs', n, opts=o, upto='fisher') if rng.random() < 0.5 else pipeline('Lobs', n, opts=o))
                desc.append('pipeline same likelihood, arguments %s' % (sorted(o) or 'default'))
            else:
                go = dict(GEN_OPTS[int(earg)] if earg else rng.choice(GEN_OPTS))
                cc = rng.choice([x for x in (2, 3, 4) if configs.nfun(basis_of(runname), x) <= 300])
                cur().append(gen_op(runname, cc, **go))
                libs.discard((runname, cc))        # generated with another seed: not the library a later stage should silently reuse
                if 'seed' not in go:
                    libs.add((runname, cc))
                desc.append('gen %s/%d with options %s' % (runname, cc, sorted(go)))
            continue
        c = rng.random()
        forced_P = None
        if plan_ops is not None:
            code = plan_ops[oi]
            if code.startswith('restart:'):
                forced_P = int(code.split(':')[1])
                code = 'restart'
            c = CODES[code]
        if c < 0.2:
            rn, cc = rng.choice(OTHER)
            if quick and configs.nfun(basis_of(rn), cc) > 300:
                rn, cc = 'ext_maths', 3
            cur().append(gen_op(rn, cc))
            libs.add((rn, cc))
            desc.append('gen %s/%d' % (rn, cc))
        elif c < 0.4:
            cc = rng.choice([x for x in (1, 2, 3, 4, 5) if x != n and configs.nfun(basis_of(runname), x) <= (300 if quick else 1000)])
            cur().append(gen_op(runname, cc))
            libs.add((runname, cc))
            desc.append('gen %s/%d (same basis)' % (runname, cc))
        elif c < 0.55:
            cur().append(gen_op(runname, n))
            libs.add((runname, n))
            desc.append('gen %s/%d (identical)' % (runname, n))
        elif c < 0.67:
            o = op_opts()
            need_lib(runname, n, lower=bool(o.get('ignore_previous_eqns')))
            need_like('Lobs', like_obs)
            cur().extend(pipeline('Lobs', n, opts=o, plot=recipe.get('plot', rng.random() < 0.35)))
            desc.append('pipeline same likelihood' + (' (ipe)' if o.get('ignore_previous_eqns') else ''))
        elif c < 0.78:
            o = op_opts()
            need_lib(runname, n, lower=bool(o.get('ignore_previous_eqns')))
            need_like('Loth', like_oth)
            cur().extend(pipeline('Loth', n, opts=dict(o, Niter_params=[3], Nconv_params=[2])))
            desc.append('pipeline other likelihood %s/%s' % (like_oth['cls'], like_oth['data_dir']) + (' (ipe)' if o.get('ignore_previous_eqns') else ''))
        elif c < 0.87:
            o = op_opts()
            need_lib(other_basis, n, lower=bool(o.get('ignore_previous_eqns')))
            need_like('Lbas', dict(like_obs, cls='Gauss', data_file='data.txt', data_dir='user', run_name='bas', fn_set=other_basis))
            cur().extend(pipeline('Lbas', n, opts=o))
            desc.append('pipeline other basis %s' % other_basis + (' (ipe)' if o.get('ignore_previous_eqns') else ''))
        elif 0.882 <= c < 0.884:
            # a complexity-10 library in the same basis directory (only affordable for the tiny basis)
            if tiny:
                cur().append(gen_op(runname, 10))
                libs.add((runname, 10))
                desc.append('gen %s/10 (same basis, two-digit complexity)' % runname)
        elif c < 0.89:
            # a complete pipeline on a hand-written complexity-11 library (raises the recursion limit, 5-column tables)
            # half of the time under the SAME run name as the observed likelihood: complexity-11 outputs and partial files
            # share the directories of the observed complexity-1..5 run
            need_like('Lsyn', dict(cls='Gauss', data_file='data.txt', run_name=rng.choice(['syn', 'obs']), data_dir='user', fn_set='synth11'))
            cur().extend(pipeline('Lsyn', 11, opts=dict(FIT_OPTS)))
            synth[0] = 11
            desc.append('pipeline synthetic complexity 11')
        elif c < 0.94:
            if cur():
                segments.append(dict(P=forced_P or rng.choice([1, 2, 3]), program=[]))
                likes_here = set()
                desc.append('restart P=%d' % segments[-1]['P'])
        elif c >= 0.97:
            # an earlier generation IN THE SAME PROCESSES in which steps timed out (fault plan scoped to that one operation)
            tgt = rng.choice([(runname, n), (runname, n), (runname, max(3, n - 1)), (other_basis, 3)])
            if configs.nfun(basis_of(tgt[0]), tgt[1]) > (300 if quick else 1000):
                tgt = (runname, 3)
            dens = rng.choice([0.1, 0.3, 0.7])
            Pseg = segments[-1]['P']
            pl = {str(r): {str(b): ['stmt', rng.randint(1, 14)] for b in range(1, 700) if rng.random() < dens} for r in range(Pseg)}
            segments[-1].setdefault('op_plans', {})[str(len(cur()))] = pl
            cur().append(gen_op(tgt[0], tgt[1]))
            libs.add(tgt)
            desc.append('gen %s/%d with timeouts, same processes' % tgt)
        else:
            # an earlier COMPLETED run of the identical generation in which many steps timed out (it takes a different
            # number of rounds and leaves other per-round files behind); own processes, then a restart
            if cur():
                segments.append(dict(P=1, program=[]))
            else:
                segments[-1]['P'] = 1
            dens = rng.choice([0.15, 0.4, 0.8])
            segments[-1]['plan'] = {'0': {str(b): ['stmt', rng.randint(1, 14)] for b in range(1, 700) if rng.random() < dens}}
            cur().append(gen_op(runname, n))
            libs.add((runname, n))
            desc.append('gen %s/%d with timeouts (identical call)' % (runname, n))
            segments.append(dict(P=rng.choice([1, 2]), program=[]))
            likes_here = set()
            desc.append('restart P=%d' % segments[-1]['P'])
    # the observed call runs in a segment with P_obs ranks
    if segments[-1]['P'] != P_obs:
        if cur():
            segments.append(dict(P=P_obs, program=[]))
            likes_here = set()
            desc.append('restart P=%d' % P_obs)
        else:
            segments[-1]['P'] = P_obs
    npseed = rs % 65521
    if kind == 'gen':
        gseed = recipe.get('gen_seed', 0 if rng.random() < 0.2 else None)
        if recipe.get('reseed', rng.random() < 0.5):
            cur().append(['npseed', dict(seed=npseed)])
        # otherwise the observed generation starts from whatever state the history left in numpy's global generator: generation
        # seeds explicitly wherever it shuffles (its `seed` argument), so its files may not depend on that state
        cur().append(gen_op(runname, n, **({'seed': gseed} if gseed is not None else {})))
        observed = dict(kind='gen', runname=runname, compl=n, P=P_obs, npseed=npseed, gen_seed=gseed)
    else:
        stage = recipe.get('stage') or rng.choice(STAGES)
        o_pre = op_opts()
        okw = op_opts() if stage == 'test_all' else {}
        if stage == 'test_all' and recipe.get('obs_defaults', (runname, n) in (('core_maths', 1), ('core_maths', 2), ('core_maths', 3), ('osc_maths', 3)) and rng.random() < 0.3):
            okw = {k_: v_ for k_, v_ in okw.items() if k_ == 'ignore_previous_eqns'}     # Niter_params / Nconv_params left at their defaults
        need_lib(runname, n, lower=bool(o_pre.get('ignore_previous_eqns') or okw.get('ignore_previous_eqns')))
        need_like('Lobs', like_obs)
        cur().extend(pipeline('Lobs', n, upto=stage, opts=o_pre))
        od = 'user/fitting/output/output_obs' if like_obs['cls'] != 'Mock' else 'pkg/esr/fitting/output/output_mock_320_0.2'
        pairs = [['pkg/esr/function_library/' + runname, 'snap/lib/' + runname]]
        from .jobs import STAGE_INPUTS
        for f in STAGE_INPUTS[stage]:
            pairs.append([od + '/' + f % n, 'snap/in/' + f % n])
        if stage == 'combine' and like_obs['cls'] == 'Gauss' and recipe.get('data_corrupted', rng.random() < 0.1):
            # the data file of the run name now contains a NaN measurement: every description length becomes NaN and the
            # final table is empty - next to whatever an earlier ranking under the same run name left behind
            cur().append(['rewrite_data', dict(path=like_obs['data_dir'] + '/' + like_obs['data_file'])])
            cur().append(['like', dict(like_obs, name='Lobs')])
            cur().extend(pipeline('Lobs', n, upto=stage, opts=dict(FIT_OPTS)))
            desc.append('data file corrupted (NaN) before the observed run')
        if stage == 'combine' and recipe.get('prior_changed', rng.random() < 0.15):
            # the function-prior file of the library is replaced (same length, other values) after earlier rankings used it
            cur().append(['rewrite_prior', dict(runname=runname, compl=n, mode=rng.choice(['reverse', 'shift']))])
            desc.append('function prior file replaced')
        cur().append(['snapshot', dict(pairs=pairs)])
        cur().append(['npseed', dict(seed=npseed)])
        kw = dict(stage=stage, comp=n, like='Lobs')
        kw.update(okw)
        cur().append(['fit', kw])
        observed = dict(kind='fit', stage=stage, runname=runname, compl=n, P=P_obs, like=like_obs, npseed=npseed, kw=okw)
    # cost guard: no generated history may contain a generation predicted above 3,000 functions (a complexity-10 library of a
    # basis with binary operators has ~10^6 trees and would stall the check for its whole wall timeout)
    for sg in segments:
        sg['program'] = [op for op in sg['program'] if not (op[0] == 'gen' and configs.nfun(op[1].get('basis') or basis_of(op[1]['runname']), op[1]['compl']) > 3000)]
    segments = [s for s in segments if s['program']]
    return dict(segments=segments, observed=observed, data=data, seed=rs, run_seed=rs, policy={'kind': rng.choice(['lowest', 'uniform', 'pct'])},
                eager=rng.choice([0.0, 0.5, 1.0]), desc=desc, nops=len(desc), npseed=0, ipe=ipe, synth_lib=synth[0])


def main(tier, seed, budget):
    T = base.Timer()
    rep = base.Reporter(PID)
    quick = tier == 'quick'
    explore_s = budget or (190 if quick else 1500)
    stats = dict(histories=0, by_kind={}, by_len={}, ops={}, restarts=0, events=0, nontrivial=set(), fresh_worlds=0, ipe=0)
    samples = []
    selftest = {}
    with Pool(16, hashseed=0, warm=False) as pool:
        # ---- fresh reference worlds for observed generations ----
        refs = {}
        jobs = [dict(fn=JOB_GEN, args=dict(runname=rn, compl=c, basis=RUN_BASIS.get(rn), P=P, seed=0, policy={'kind': 'lowest'}, oracle=False,
                                           pre=[['npseed', dict(seed=1)]], gen_kw=({'seed': gs} if gs is not None else {})), tag=(rn, c, P, gs))
                for rn, c in OBS_CONFIGS for P in (1, 2) for gs in (None, 0)]
        for job, out in pool.imap(jobs, timeout=900):
            stats['fresh_worlds'] += 1
            if out[0] != 'ok' or out[1].get('violation'):
                rep.harness_error('fresh reference %s failed: %s' % (job['tag'], str(out[1])[-300:]))
                continue
            refs[job['tag']] = out[1]['hashes']

        def mk(i):
            a = draw_history(seed, i, quick)
            o = a['observed']
            if o['kind'] == 'gen':
                a['ref_hashes'] = refs.get((o['runname'], o['compl'], o['P'], o.get('gen_seed')))
                if a['ref_hashes'] is None:
                    return None
            return dict(fn=JOB, args=a, timeout=1500)
        # ---- determinism self-test ----
        st = []
        for k in range(4):
            j = mk(990000 + k)
            if j:
                for rep_i in range(2):
                    st.append(dict(j, tag=(k, rep_i)))
        got = {}
        for job, out in pool.imap(st, timeout=1500):
            if out[0] == 'ok':
                got.setdefault(job['tag'][0], []).append((out[1]['digest'], tuple(sorted((out[1].get('hashes') or {}).items())), repr((out[1]['violation'] or {}).get('sig'))))
        bad = [k for k, v in got.items() if len(v) == 2 and v[0] != v[1]]
        selftest['same_seed_twice'] = dict(pairs=len(got), mismatches=len(bad))
        if bad:
            rep.harness_error('determinism self-test failed: %s' % bad)
        deadline = time.time() + explore_s

        def gen():
            # directed histories first: every known state carrier is exercised in every run
            for k, rc in enumerate(DIRECTED):
                a = draw_history(seed, 400000 + k, quick, recipe=rc)
                o = a['observed']
                if o['kind'] == 'gen':
                    a['ref_hashes'] = refs.get((o['runname'], o['compl'], o['P'], o.get('gen_seed')))
                    if a['ref_hashes'] is None:
                        continue
                a['directed'] = k
                yield dict(fn=JOB, args=a, timeout=1500)
            i = 0
            while True:
                j = mk(i)
                i += 1
                if j:
                    yield j
        for job, out in pool.imap(gen(), timeout=1500, deadline=deadline):
            a = job['args']
            if out[0] != 'ok':
                rep.harness_error('history seed=%s: %s %s' % (a['run_seed'], out[0], str(out[1])[-400:]))
                continue
            r = out[1]
            o = a['observed']
            stats['histories'] += 1
            stats.setdefault('slow', []).append((round(float(out[2]), 1) if len(out) > 2 else 0.0, a['run_seed'], a['desc'][:4], a['observed'].get('kind'), a['observed'].get('stage'), a['observed'].get('runname'), a['observed'].get('compl')))
            stats['slow'] = sorted(stats['slow'], reverse=True)[:6]
            stats['ipe'] += int(bool(a.get('ipe')))
            stats['events'] += r['steps']
            kind = 'gen' if o['kind'] == 'gen' else 'fit:' + o['stage']
            stats['by_kind'][kind] = stats['by_kind'].get(kind, 0) + 1
            stats['by_len'][a['nops']] = stats['by_len'].get(a['nops'], 0) + 1
            for d in a['desc']:
                key = d.split(' ')[0] + (' ' + d.split(' ')[1] if d.startswith('pipeline') else '') + (' (identical)' if 'identical' in d else '') + (' (same basis)' if 'same basis' in d else '')
                stats['ops'][key] = stats['ops'].get(key, 0) + 1
            stats['restarts'] += sum(1 for d in a['desc'] if d.startswith('restart'))
            stats['fresh_worlds'] += int(o['kind'] == 'fit')
            if a['nops'] >= 1:
                stats['nontrivial'].add((kind, o['runname'], o['compl'], o['P'], tuple(a['desc'])))
            ss = sigs_of(a, r)
            if len(samples) < 5 and a['nops'] >= 2:
                samples.append(dict(history=a['desc'], observed={k: v for k, v in o.items() if k != 'like'}, segments=r['segments'],
                                    run_seed=a['run_seed'], verdict=sorted(ss) or 'ok'))
            for s in ss:
                rep.add(s, dict(run_seed=a['run_seed'], hashseed=0, warm=False, job=dict(fn=JOB, args=a), violation=r.get('violation'), probs=r.get('probs'),
                                history=a['desc']))
        # ---- minimise: drop history operations greedily ----
        for s, ent in list(rep.violations.items())[:4]:
            a = ent['record']['job']['args']
            best = a
            used = 0
            improved = True
            while improved and used < (20 if quick else 40):
                improved = False
                for si in range(len(best['segments'])):
                    seg = best['segments'][si]
                    last = si == len(best['segments']) - 1
                    # never drop the observed call and what it needs (the tail after the last history op)
                    for oi in range(len(seg['program'])):
                        if last and oi >= len(seg['program']) - (2 if best['observed']['kind'] == 'gen' else 1):
                            break
                        op = seg['program'][oi]
                        if op[0] in ('like', 'snapshot', 'npseed'):
                            continue
                        import copy
                        cand = copy.deepcopy(best)
                        del cand['segments'][si]['program'][oi]
                        cand['segments'] = [x for x in cand['segments'] if x['program']]
                        (j, out), = pool.run([dict(fn=JOB, args=cand)], timeout=1500)
                        used += 1
                        if out[0] == 'ok' and s in sigs_of(cand, out[1]):
                            best = cand
                            improved = True
                            break
                    if improved:
                        break
            ent['record'] = dict(ent['record'], job=dict(fn=JOB, args=best), minimisation=['history ops kept: %d (re-executions %d)' % (
                sum(len(x['program']) for x in best['segments']), used)])
    wall = T()
    cov = dict(
        evaluations=stats['histories'] + stats['fresh_worlds'], distinct_nontrivial=len(stats['nontrivial']),
        rule='one evaluation = one generated history executed in simulated worlds (segments separated by process restarts, P in {1,2}) plus the '
             'fresh comparator world. Non-trivial = at least one earlier operation precedes the observed call; distinct by (observed call, '
             'sequence of earlier operations).',
        samples=samples, histories=stats['histories'], directed_histories=len(DIRECTED), observed_calls=stats['by_kind'], history_lengths=stats['by_len'],
        earlier_operations=stats['ops'], histories_with_ignore_previous_eqns=stats['ipe'], process_restarts=stats['restarts'], fresh_comparator_worlds=stats['fresh_worlds'],
        slowest_histories_wall_s=stats.get('slow'),
        seam_events=stats['events'], runs_per_hour=round(3600.0 * stats['histories'] / max(wall, 1e-9)),
        fault_kinds={'F4 history operations': sum(stats['ops'].values()), 'F4 process restarts': stats['restarts']}, selftest=selftest,
        zygote='forked from a zygote that imported third-party libraries only (no ESR code, no warm-up)',
        components=base.COMPONENTS, harness_errors=len(rep.harness), repo_head=base.repo_head(), exhaustive=False)
    rc = rep.finish()
    base.write_evidence(PID, tier, seed, 'exploration', cov, wall, len(rep.violations),
                        ['hash seed held fixed inside a comparison (library bytes depend on PYTHONHASHSEED)',
                         'fitting stages: the inputs of the observed stage are copied verbatim from the history world into the fresh one; np.random.seed is set immediately before the observed call in both',
                         'histories contain completed runs only (no crashed earlier runs)'])
    return rc
