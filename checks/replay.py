"""./check replay <file>: re-execute a recorded violation in a fresh worker with the scripted
scheduler; exit 1 + VIOLATION line if the same signature is observed, 3 otherwise."""
import importlib
import json

from esrsim.pool import Pool
from . import base


def main(path):
    with open(path) as f:
        rec = json.load(f)
    pid, sig = rec['property'], rec['signature']
    mod = importlib.import_module('checks.' + pid.lower())
    job = rec['job']
    with Pool(1, hashseed=int(rec.get('hashseed', 0)), warm=bool(rec.get('warm', True))) as pool:
        (j, out), = pool.run([job], timeout=1800)
    if out[0] != 'ok':
        print('HARNESS-ERROR replay job %s: %s' % (out[0], str(out[1])[-800:]))
        return base.EXIT_HARNESS
    r = out[1]
    sigs = mod.sigs_of(job['args'], r)
    print('replayed %s: signatures observed %s, event digest %s (recorded %s)' % (
        path, sorted(sigs), r.get('digest', '')[:16], str(rec.get('digest', ''))[:16]))
    if r.get('diverged'):
        print('replay diverged from the recorded schedule: %s' % r['diverged'])
    if r.get('violation'):
        print(json.dumps(r['violation'], indent=1, default=str)[:3000])
    if r.get('probs'):
        print('oracle problems:', r['probs'][:5])
    core = sig.split(':', 1)[1] if sig.startswith(('P1:', 'fault-free:')) else sig
    if sig in sigs or core in sigs:
        print('VIOLATION property=%s replay=%s' % (pid, path))
        return base.EXIT_VIOLATION
    print('NOT-REPRODUCED property=%s signature=%s' % (pid, sig))
    return base.EXIT_HARNESS
