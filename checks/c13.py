"""C13 - the number of MPI ranks changes neither what is enumerated nor its soundness; relative
speeds of the ranks have no influence on any output.

Seeded search over (configuration, P, scheduler policy, eager/rendezvous bias, bcast-root coin,
hash seed); oracles: LIVE, LIB-EQ(tree/function/code-length files vs the P=1 world), LIB-SOUND,
schedule independence of every file within one (configuration, P, hash seed, root coin)."""
import copy
import os
import time

from esrsim.pool import Pool
from . import base, configs
from .jobs import GEN_FILES
from .minimise import minimise

PID = 'C13'
JOB = 'checks.jobs:gen_world'
RJOB = 'checks.jobs:recheck_world'
P_CHOICES = [2, 2, 2, 3, 3, 3, 4, 4, 5, 5, 6, 7, 8, 11, 13, 16]
POLICIES = ['uniform', 'uniform', 'pct', 'pct', 'rr', 'lowest']


def sigs_of(args, r):
    s = set()
    if r is None:
        return s
    if r.get('violation'):
        s.add(r['violation']['sig'])
    if r.get('sig'):
        s.add(r['sig'])
    for f in r.get('diff') or []:
        s.add('lib-diff:' + f)
    for f in r.get('cmpdiff') or []:
        s.add('sched-dep:' + f)
    if args.get('rank_hashseeds') and args.get('P') == 1:
        for f in r.get('diff') or []:
            s.add('hashseed-dep:' + f)
    return s


def draw_run(seed, i, cfgs, tier):
    rs = base.run_seed(seed, i)
    rng = base.rng_for(rs)
    # weight cheap configurations higher but keep the expensive ones in play
    # ... and configurations whose sequential run exercises check_results' un-merge path (it re-maps shuffled,
    # scattered indices) are worth more
    weights = [(4.0 if c.get('unmerged') else 1.0) * (1.5 if c.get('micro') else 1.0) / (1 + c['nfun'] / 150.0) for c in cfgs]
    cfg = rng.choices(cfgs, weights)[0]
    P = rng.choice(P_CHOICES)
    if cfg['nfun'] <= 40 and rng.random() < 0.5:
        P = rng.choice([5, 6, 7, 9, 11, 13, 16])      # tiny libraries: more ranks than labelled trees of a shape
    if cfg['nfun'] > 400:
        P = min(P, 8)
    kind = rng.choice(POLICIES)
    pol = {'kind': kind}
    if kind == 'pct':
        pol.update(d=rng.randint(1, 3), horizon=200 * P + cfg['nfun'] * 4)
    if kind == 'rr':
        pol.update(p_stall=rng.choice([0.01, 0.03, 0.1]), max_stall=rng.choice([10, 60, 300]))
    args = dict(runname=cfg['runname'], compl=cfg['compl'], basis=cfg['basis'], P=P, seed=rs, policy=pol,
                eager=rng.choice([0.0, 0.2, 0.5, 0.8, 1.0]), root_copy=rng.random() < 0.25,
                run_seed=rs, nfun=cfg['nfun'], npseed=rng.randrange(1, 10 ** 6))
    # npseed: the state of numpy's global generator when the ranks start (under real MPI it comes from OS entropy and differs
    # per rank and per run); generation seeds explicitly where it shuffles, so no output may depend on it
    if rng.random() < 0.2:
        # documented arguments of duplicate_checker.main that must not change any library file: memory tracking (extra code under
        # rank-0 guards at six places of the generation) and the limits of the time-limited steps (the clock is virtual)
        args['gen_kw'] = rng.choice([dict(track_memory=True), dict(track_memory=True), dict(search_tmax=rng.choice([1, 7, 600]), expand_tmax=rng.choice([2, 30])),
                                     dict(track_memory=True, search_tmax=5)])
    if rng.random() < (0.15 if tier == 'quick' else 0.3):
        # F6b: what mpirun does by default - every rank's interpreter has its own string-hash secret.
        # Offsets relative to the pool's hash seed; resolved to absolute seeds when the job is issued.
        off = [rng.choice([0, 1, 2]) for _ in range(P)]
        if len(set(off)) > 1:
            args['hs_offsets'] = off
    return args


def cfg_key(a):
    return (a['runname'], a['compl'])


def main(tier, seed, budget):
    T = base.Timer()
    rep = base.Reporter(PID)
    quick = tier == 'quick'
    explore_s = budget or (150 if quick else 1500)
    hashseeds = [0] if quick else [0, 1, 2, 3]
    crng = base.rng_for(seed, 'c13-configs')
    cfgs, skipped = configs.pool(crng, n_sub=16 if quick else 40, max_n=5,
                                 cap=600 if quick else 1700)
    cfgs += configs.micro(crng)
    stats = dict(twins=0, hs2_refs=0, blocks_opened=0, mixed_hs=0, worlds=0, ref_worlds=0, by_P={}, by_policy={}, eager={}, root_copy=0, events=0, mpi=0, fs=0,
                 rdigests=set(), nontrivial=set(), harness=0, sound_functions=0, sound_points=0, empty_slice_runs=0,
                 hashseeds=hashseeds, ref_failed=[])
    samples = []
    selftest = {}
    idx = 0
    for hs in hashseeds:
        share = explore_s / len(hashseeds)
        with Pool(16, hashseed=hs) as pool:
            # ---- determinism self-test: same job twice, different workers ----
            if hs == hashseeds[0]:
                st_jobs = []
                for k in range(6):
                    a = draw_run(seed, 900000 + k, [c for c in cfgs if c['nfun'] <= 80], tier)
                    a['P'] = [2, 3, 5][k % 3]
                    for rep_i in range(2):
                        st_jobs.append(dict(fn=JOB, args=a, tag=(k, rep_i)))
                got = {}
                for job, out in pool.imap(st_jobs, timeout=300):
                    if out[0] != 'ok':
                        rep.harness_error('selftest job %s: %s' % (out[0], str(out[1])[-300:]))
                        continue
                    r = out[1]
                    got.setdefault(job['tag'][0], []).append((r['digest'], tuple(sorted(r['hashes'].items())), repr((r['violation'] or {}).get('sig'))))
                bad = [k for k, v in got.items() if len(v) == 2 and v[0] != v[1]]
                selftest['same_seed_twice'] = dict(pairs=len(got), mismatches=len(bad))
                selftest['_digests'] = {k: v[0][0] for k, v in got.items() if v}
                selftest['_jobs'] = {j['tag'][0]: j['args'] for j in st_jobs}
                if bad:
                    rep.harness_error('determinism self-test failed for pairs %s' % bad)
            elif hs == hashseeds[1] and selftest.get('_digests'):
                # event digests must not depend on the hash seed
                st_jobs = [dict(fn=JOB, args=a, tag=k) for k, a in selftest['_jobs'].items()]
                mism = 0
                for job, out in pool.imap(st_jobs, timeout=300):
                    if out[0] == 'ok' and out[1]['digest'] != selftest['_digests'].get(job['tag']):
                        mism += 1
                selftest['other_hashseed_event_digest'] = dict(jobs=len(st_jobs), mismatches=mism)
                if mism:
                    rep.harness_error('event digests depend on PYTHONHASHSEED (%d of %d)' % (mism, len(st_jobs)))
            # ---- reference worlds: P=1, canonical schedule ----
            refs = {}
            ref_steps = {}
            ref_jobs = [dict(fn=JOB, args=dict(runname=c['runname'], compl=c['compl'], basis=c['basis'], P=1, seed=0,
                                               policy={'kind': 'lowest'}, run_seed=0, nfun=c['nfun'])) for c in cfgs]
            for job, out in pool.imap(ref_jobs, timeout=900):
                a = job['args']
                stats['ref_worlds'] += 1
                if out[0] != 'ok':
                    rep.harness_error('reference world %s %s: %s' % (cfg_key(a), out[0], str(out[1])[-300:]))
                    continue
                r = out[1]
                ss = sigs_of(a, r)
                if ss:
                    # the sequential, fault-free run itself fails: nothing a rank count or schedule decides (DESIGN 11).
                    # Seeded sub-bases are dropped and recorded; for the shipped bases it is reported (P = 1 is a rank count
                    # and "generation terminates on all ranks" fails).
                    stats['ref_failed'].append([a['runname'], a['compl'], sorted(ss)])
                    if a['basis'] is None:
                        for s_ in ss:
                            rep.add('P1:' + s_, dict(run_seed=0, hashseed=hs, job=dict(fn=JOB, args=a), violation=r.get('violation'), probs=r.get('probs')))
                    continue
                refs[cfg_key(a)] = r['hashes']
                ref_steps[cfg_key(a)] = r['steps']
                for c in cfgs:
                    if (c['runname'], c['compl']) == cfg_key(a):
                        c['unmerged'] = r.get('n_unmerged') or 0
            live_cfgs = [c for c in cfgs if (c['runname'], c['compl']) in refs]
            # ---- the same sequential run in an interpreter with another string-hash secret (under mpirun every rank has its
            #      own): tree, function and code-length lists must not depend on it
            hs2_jobs = [dict(fn=JOB, args=dict(runname=c['runname'], compl=c['compl'], basis=c['basis'], P=1, seed=0, policy={'kind': 'lowest'},
                                               run_seed=1, nfun=c['nfun'], rank_hashseeds=[hs + 1], oracle=False,
                                               ref_hashes={f + '_%d.txt' % c['compl']: refs[(c['runname'], c['compl'])].get(f + '_%d.txt' % c['compl']) for f in GEN_FILES}),
                             timeout=900) for c in live_cfgs if c['nfun'] <= (600 if quick else 1700)]
            for job, out in pool.imap(hs2_jobs, timeout=900):
                a = job['args']
                stats['ref_worlds'] += 1
                if out[0] != 'ok':
                    rep.harness_error('hash-seed reference %s: %s %s' % (cfg_key(a), out[0], str(out[1])[-300:]))
                    continue
                r = out[1]
                for f in r.get('diff') or []:
                    rep.add('hashseed-dep:' + f, dict(run_seed=1, hashseed=hs, job=dict(fn=JOB, args=a), diff=r.get('diff')))
                stats['hs2_refs'] += 1
            if not live_cfgs:
                rep.harness_error('no reference world succeeded')
                break
            # ---- the final result check (check_results) on large libraries: P ranks vs one rank on the same library.  Numbers of
            #      mapped functions M are chosen so that the per-rank shares straddle multiples of 100 (the period of the
            #      progress code in the checking loop) and of 1, plus random (P, M)
            rc_jobs = []
            pm = [(2, 201), (3, 301), (3, 302), (4, 402), (2, 401), (5, 503), (7, 3), (16, 5)]
            if not quick:
                pm += [(P, 100 * k * P + r) for P in (2, 3, 4, 5, 6, 7, 8) for k in (1, 2) for r in sorted({1, P - 1, (P + 1) // 2})]
            rrng = base.rng_for(seed, 'c13-recheck', hs)
            pm += [(rrng.choice([2, 3, 4, 5, 8, 11]), rrng.randint(1, 420)) for _ in range(6 if quick else 40)]
            small = [c for c in live_cfgs if c['nfun'] <= 150 and c['compl'] >= 3][:3] or live_cfgs[:1]
            for k, (P, M) in enumerate(pm):
                rs = base.run_seed(seed, 200000 + k)
                rng = base.rng_for(rs)
                c = small[k % len(small)]
                rc_jobs.append(dict(fn=RJOB, timeout=900, args=dict(
                    runname=c['runname'], compl=c['compl'], basis=c['basis'], P=P, M=M, plain=rng.randint(0, 30), wrong=rng.choice([0, 3, 10, 40]),
                    lib_seed=rs % 1000, seed=rs, policy={'kind': rng.choice(['uniform', 'lowest', 'pct'])}, eager=rng.choice([0.0, 0.5, 1.0]),
                    root_copy=False, run_seed=rs, nfun=M, max_steps=20000)))
            for job, out in pool.imap(rc_jobs, timeout=900):
                a = job['args']
                if out[0] != 'ok':
                    rep.harness_error('recheck world %s P=%d M=%d: %s %s' % (cfg_key(a), a['P'], a['M'], out[0], str(out[1])[-400:]))
                    continue
                r = out[1]
                if r.get('skipped'):
                    stats['recheck_skipped'] = stats.get('recheck_skipped', 0) + 1
                    continue
                stats['recheck_worlds'] = stats.get('recheck_worlds', 0) + 1
                stats['recheck_rows'] = stats.get('recheck_rows', 0) + (r.get('rows') or 0)
                stats['recheck_unmerged'] = stats.get('recheck_unmerged', 0) + (r.get('n_unmerged') or 0)
                stats['events'] += r['steps']
                for s_ in sigs_of(a, r):
                    rep.add(s_, dict(run_seed=a['run_seed'], job=dict(fn=RJOB, args=a), result_violation=r.get('violation'),
                                     probs=r.get('probs'), hashseed=hs, reproducible=None))
            # ---- exploration ----
            deadline = time.time() + share
            groups = {}

            def gen_jobs():
                nonlocal idx
                # directed pairs first: the configurations with the richest simplification paths (check_results un-merges
                # something), two and three ranks, two worlds each that differ only in schedule and ambient random state
                rich = sorted([c for c in live_cfgs if c.get('unmerged')], key=lambda c: (c['basis'] is not None, -c['unmerged'], c['nfun']))[:5]
                for ci, c in enumerate(rich):
                    for P in (2, 3):
                        for v in range(2):
                            rs = base.run_seed(seed, 300000 + ci * 100 + P * 10 + v)
                            a = dict(runname=c['runname'], compl=c['compl'], basis=c['basis'], P=P, seed=rs, policy={'kind': ['uniform', 'lowest'][v]},
                                     eager=[0.3, 1.0][v], root_copy=False, run_seed=rs, nfun=c['nfun'], npseed=1000 + 77 * v + ci, hashseed=hs, twin=True)
                            a['ref_hashes'] = {f + '_%d.txt' % a['compl']: refs[cfg_key(a)].get(f + '_%d.txt' % a['compl']) for f in GEN_FILES}
                            a['max_steps'] = 40 * ref_steps[cfg_key(a)] * P + 5000
                            yield dict(fn=JOB, args=a, timeout=900)
                while True:
                    a = draw_run(seed, idx, live_cfgs, tier)
                    idx += 1
                    a['ref_hashes'] = {f + '_%d.txt' % a['compl']: refs[cfg_key(a)].get(f + '_%d.txt' % a['compl']) for f in GEN_FILES}
                    a['hashseed'] = hs
                    # bounded liveness: a world may use at most 40x the events of the sequential run per rank
                    a['max_steps'] = 40 * ref_steps[cfg_key(a)] * a['P'] + 5000
                    if a.get('hs_offsets'):
                        a['rank_hashseeds'] = [hs + o for o in a['hs_offsets']]
                    yield dict(fn=JOB, args=a, timeout=900)
                    if a['P'] > 1 and a['run_seed'] % 5 == 0:
                        # a twin: same configuration, rank count, hash seeds and bcast coin - another schedule, another eager bias
                        # and another ambient random state; guarantees that schedule independence is actually compared
                        b = copy.deepcopy(a)
                        b['seed'] = a['seed'] + 7
                        b['npseed'] = a['npseed'] + 12345
                        b['policy'] = {'kind': 'uniform'} if a['policy']['kind'] != 'uniform' else {'kind': 'pct', 'd': 2, 'horizon': 200 * a['P'] + a['nfun'] * 4}
                        b['eager'] = 1.0 - a['eager']
                        b['run_seed'] = a['run_seed'] + 500000
                        b['twin'] = True
                        yield dict(fn=JOB, args=b, timeout=900)
            pending_min = []
            for job, out in pool.imap(gen_jobs(), timeout=900, deadline=deadline):
                a = job['args']
                if out[0] != 'ok':
                    stats['harness'] += 1
                    rep.harness_error('world %s P=%d seed=%d: %s %s' % (cfg_key(a), a['P'], a['run_seed'], out[0], str(out[1])[-400:]))
                    continue
                r = out[1]
                stats['worlds'] += 1
                stats['by_P'][a['P']] = stats['by_P'].get(a['P'], 0) + 1
                stats['by_policy'][a['policy']['kind']] = stats['by_policy'].get(a['policy']['kind'], 0) + 1
                stats['eager'][str(a['eager'])] = stats['eager'].get(str(a['eager']), 0) + 1
                stats['root_copy'] += int(a['root_copy'])
                stats['gen_kw'] = stats.get('gen_kw', 0) + int(bool(a.get('gen_kw')))
                stats['mixed_hs'] += int(bool(a.get('hs_offsets')))
                stats['twins'] += int(bool(a.get('twin')))
                stats['events'] += r['steps']
                stats['blocks_opened'] += sum((rk.get('clock') or {}).get('blocks') or 0 for rk in r['ranks'])
                stats['mpi'] += r['nmpi']
                stats['fs'] += r['nfs']
                stats['rdigests'].add((cfg_key(a), a['P'], r['rdigest']))
                stats['nontrivial'].add((cfg_key(a), a['P'], hs, r['rdigest']))
                if r.get('stats'):
                    stats['sound_functions'] += r['stats'].get('functions', 0)
                    stats['sound_points'] += r['stats'].get('points', 0)
                if a['P'] > a['nfun']:
                    stats['empty_slice_runs'] += 1
                ss = sigs_of(a, r)
                gk = (cfg_key(a), a['P'], hs, a['root_copy'], tuple(a.get('hs_offsets') or ()))
                if not ss and not r.get('real_expired'):
                    if gk not in groups:
                        groups[gk] = (a, r['hashes'])
                    elif groups[gk][1] != r['hashes']:
                        diff = sorted(f for f in set(groups[gk][1]) | set(r['hashes']) if groups[gk][1].get(f) != r['hashes'].get(f))
                        for f in diff:
                            ss.add('sched-dep:' + f)
                        a = dict(a, cmp_hashes=groups[gk][1])
                        r = dict(r, cmpdiff=diff)
                if len(samples) < 4 and a['P'] > 1:
                    samples.append(dict(config=[a['runname'], a['compl'], a['basis']], P=a['P'], policy=a['policy'], eager=a['eager'],
                                        root_copy=a['root_copy'], run_seed=a['run_seed'], steps=r['steps'],
                                        decisions_prefix=r['choices'][:12], verdict=sorted(ss) or 'ok'))
                for s in ss:
                    if rep.add(s, dict(run_seed=a['run_seed'], job=dict(fn=JOB, args=a), result_violation=r.get('violation'),
                                       probs=r.get('probs'), hashseed=hs)):
                        pending_min.append((s, a, r))
            # ---- minimise new violations (bounded) ----
            for s, a, r in pending_min[:4]:
                ma, mr, notes, okrep = minimise(pool, JOB, a, r, s, sigs_of, budget=25 if quick else 50)
                ent = rep.violations.get(s)
                if ent is not None:
                    rec = dict(run_seed=a['run_seed'], hashseed=hs, job=dict(fn=JOB, args=ma), minimisation=notes,
                               violation=mr.get('violation'), probs=mr.get('probs'), diff=mr.get('diff'), cmpdiff=mr.get('cmpdiff'),
                               digest=mr.get('digest'), reproducible=okrep)
                    ent['record'] = rec
                    if not okrep:
                        rep.harness_error('violation %s did not replay' % s)
    selftest.pop('_digests', None)
    selftest.pop('_jobs', None)
    wall = T()
    nworlds = stats['worlds']
    cov = dict(
        evaluations=nworlds + stats['ref_worlds'],
        distinct_nontrivial=len(stats['nontrivial']),
        rule='one evaluation = one simulated generation world. Configuration (6 shipped bases + seeded sub-bases, complexity 1..%d, '
             'predicted functions <= cap), P in 2..16, scheduler policy, eager bias, bcast-root coin drawn from run_seed = VERIF_SEED*1e6+i. '
             'Non-trivial = P >= 2; distinct = distinct (configuration, P, hash seed, reduced interleaving digest), the digest hashing the '
             'order in which ranks touch every object (collective instance, shared path) touched by >= 2 ranks.' % 5,
        samples=samples,
        configurations=len(cfgs), configurations_skipped_over_cap=len(skipped), configurations_with_unmerge_path=sum(1 for c in cfgs if c.get('unmerged')), reference_failed=stats['ref_failed'],
        worlds_by_P=stats['by_P'], worlds_by_policy=stats['by_policy'], eager_bias=stats['eager'], bcast_root_copy_runs=stats['root_copy'], worlds_with_non_default_generation_arguments=stats.get('gen_kw', 0), worlds_with_per_rank_hash_seeds=stats['mixed_hs'], twin_worlds_for_schedule_independence=stats['twins'], sequential_runs_under_another_hash_seed_compared=stats['hs2_refs'],
        runs_with_more_ranks_than_functions=stats['empty_slice_runs'],
        result_check_worlds=dict(worlds=stats.get('recheck_worlds', 0), skipped=stats.get('recheck_skipped', 0), rows_checked=stats.get('recheck_rows', 0),
                                 functions_split_off=stats.get('recheck_unmerged', 0),
                                 note='check_results on P ranks vs one rank on the same (enlarged) library; shares straddling multiples of 100'),
        seam_events=stats['events'], mpi_events=stats['mpi'], fs_events=stats['fs'],
        simulated_time=dict(seam_events=stats['events'], timed_blocks_opened=stats['blocks_opened'],
                            note='no wall clock is read by ESR; simulated time = seam events (collectives, file-system operations) and virtual timed blocks executed'),
        distinct_interleavings=len(stats['rdigests']),
        functions_checked_by_libsound=stats['sound_functions'], oracle_points=stats['sound_points'],
        hash_seeds=hashseeds, runs_per_hour=round(3600.0 * nworlds / max(wall, 1e-9)),
        fault_kinds={'F1 interleaving choice': stats['events'], 'F2 eager/rendezvous coin': stats['mpi'],
                     'F5 rank count (worlds with P>=2)': nworlds, 'F6 hash seed (per run)': len(hashseeds), 'F6b hash seed per rank (worlds)': stats['mixed_hs']},
        selftest=selftest, components=base.COMPONENTS, harness_errors=len(rep.harness), repo_head=base.repo_head(),
        exhaustive=False)
    rc = rep.finish()
    base.write_evidence(PID, tier, seed, 'exploration', cov, wall, len(rep.violations),
                        ['fake mpi4py implements the MPI standard semantics of the four collectives ESR uses; implementation quirks of a real MPI are not modelled',
                         'sampling: a clean batch is evidence for the listed configurations, rank counts and schedules only',
                         'library bytes depend on PYTHONHASHSEED; comparisons are made within one hash seed',
                         'LIB-SOUND evaluates at >= 6 generic real points per function with 30-digit arithmetic (rel. tol 1e-15)'])
    return rc
