#!/bin/sh
# Negative controls: behaviour-preserving refactorings under /verif/seeded/benign-*/ must NOT be flagged by any check.
# Writes /verif/seeded/BENIGN_RESULTS.txt.  Usage: tools/run_benign.sh [budget_s]
B=${1:-30}
OUT=/verif/seeded/BENIGN_RESULTS.txt
echo "# behaviour-preserving refactoring -> check, exit code (0 = no alarm = correct); budget ${B}s; repo $(git -C /repo rev-parse --short HEAD)" > $OUT
for D in /verif/seeded/benign-*/; do
  M=$(basename $D)
  for ID in C03 C06 C13 C14 C15 C16 C17; do
    R=$(/verif/tools/try_mutant.sh $D/patch.diff $ID quick $B 2>&1 | grep -v WARNING)
    RC=$(echo "$R" | grep -o "exit=[0-9]*" | head -1)
    SIG=$(echo "$R" | grep -E "signature:|HARNESS" | head -1 | sed 's/^ *//')
    echo "$M $ID $RC $SIG" | tee -a $OUT
  done
done
echo "# alarms: $(grep -v '^#' $OUT | grep -vc 'exit=0') of $(grep -vc '^#' $OUT)" | tee -a $OUT
