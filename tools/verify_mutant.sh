#!/bin/sh
# usage: verify_mutant.sh <mutant dir with patch.diff + demo.py>   -- confirms: applies, 117 tests pass, demo fails with / passes without
D=$(realpath "$1"); W=/tmp/vm_$$
git -C /repo worktree add -q --detach $W HEAD || exit 3
cd $W
if ! git apply "$D/patch.diff"; then echo "RESULT apply=FAIL"; cd /; git -C /repo worktree remove --force $W; exit 1; fi
T=$(/venv/bin/python -m pytest -q -p no:cacheprovider tests/test_printer.py 2>&1 | tail -1)
ESR_TREE=$W timeout 900 /venv/bin/python "$D/demo.py" > /tmp/vm_demo_mut.log 2>&1; RM=$?
git checkout -q -- . ; git clean -fdq esr
ESR_TREE=$W timeout 900 /venv/bin/python "$D/demo.py" > /tmp/vm_demo_clean.log 2>&1; RC=$?
echo "RESULT apply=ok pytest='$T' demo_with_patch_exit=$RM demo_clean_exit=$RC"
cd /; git -C /repo worktree remove --force $W
