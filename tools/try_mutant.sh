#!/bin/sh
# usage: try_mutant.sh <patch.diff> <check id> [tier] [budget_s]  -- runs one check against a scratch worktree with the patch applied
P=$(realpath "$1"); ID=$2; TIER=${3:-quick}; W=/tmp/mt_$$; OUT=/tmp/mt_out_$$
git -C /repo worktree add -q --detach $W HEAD || exit 3
( cd $W && git apply "$P" ) || { echo "apply failed"; git -C /repo worktree remove --force $W; exit 3; }
mkdir -p $OUT
cd /verif && ESRSIM_REPO=$W ESRSIM_EVIDENCE_DIR=$OUT ESRSIM_REPLAY_DIR=$OUT VERIF_BUDGET_S=${4:-0} ./check $ID $TIER > $OUT/log 2>&1; RC=$?
echo "CHECK $ID on $(basename $(dirname $P)): exit=$RC"; grep -E "VIOLATION|signature|HARNESS|KNOWN" $OUT/log | head -8
git -C /repo worktree remove --force $W; rm -rf $OUT
exit $RC
