#!/venv/bin/python
"""usage: mark_mutant.py <id> <check|none> <signature> <needs to manifest> [strengthening text]  -- fills meta.json of a seeded change"""
import json, sys
mid, chk, sig, needs = sys.argv[1:5]
st = sys.argv[5] if len(sys.argv) > 5 else ''
p = '/verif/seeded/%s/meta.json' % mid
m = json.load(open(p))
m['needs_to_manifest'] = needs
d = m['detected_by']
d['check'] = chk
d['signature'] = sig
d['needed_strengthening'] = bool(st)
d['how'] = 'tools/try_mutant.sh <patch> %s quick' % (chk if chk != 'none' else m['written_for_property'])
if st:
    d['strengthening'] = st
json.dump(m, open(p, 'w'), indent=1)
print(mid, 'marked', chk, sig)
