#!/bin/sh
# usage: intake_mutant.sh <agent output dir (patch.diff, demo.py, README.md, helpers)> <new id, e.g. C13-m22> <round>
# copies to /verif/seeded/<id>/, confirms with verify_mutant.sh, writes a meta.json skeleton (detected_by filled later)
SRC=$(realpath "$1"); ID=$2; ROUND=${3:-8}
DST=/verif/seeded/$ID
[ -e "$DST" ] && { echo "exists: $DST"; exit 2; }
mkdir -p "$DST" && cp -r "$SRC"/. "$DST"/ && rm -rf "$DST"/__pycache__
R=$(/verif/tools/verify_mutant.sh "$DST" 2>&1 | grep RESULT)
echo "$ID: $R"
/venv/bin/python - "$DST" "$ID" "$ROUND" "$R" <<'EOF'
import json, sys, re, os
dst, mid, rnd, res = sys.argv[1:5]
prop = mid.split('-')[0]
title, needs = '', ''
try:
    rd = open(os.path.join(dst, 'README.md')).read()
    for l in rd.splitlines():
        if l.strip():
            title = l.strip('# ').strip()
            break
except Exception:
    pass
m = re.search(r"apply=(\S+) pytest='([^']*)' demo_with_patch_exit=(\d+) demo_clean_exit=(\d+)", res)
meta = dict(id=mid, round=int(rnd), title=title, written_for_property=prop, breaks_property=[prop], needs_to_manifest=needs,
            author='independent sub-agent given the property text, a scratch worktree and the list of the earlier changes to avoid',
            confirmed=dict(applies_on='/repo @ 89827fc', existing_tests_with_patch=(m.group(2) if m else '?'),
                           demo_with_patch='exit %s' % (m.group(3) if m else '?'), demo_without_patch='exit %s' % (m.group(4) if m else '?'),
                           how='tools/verify_mutant.sh'),
            detected_by=dict(check='?', tier='quick', signature='', needed_strengthening=False, how='tools/try_mutant.sh <patch> <check> quick'))
json.dump(meta, open(os.path.join(dst, 'meta.json'), 'w'), indent=1)
EOF
