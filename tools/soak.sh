#!/bin/sh
# seed soak: all quick checks under other seeds; evidence/replays redirected
for s in "$@"; do
  for id in C03 C06 C13 C14 C15 C16 C17; do
    mkdir -p soak/$s
    VERIF_SEED=$s ESRSIM_EVIDENCE_DIR=$PWD/soak/$s ESRSIM_REPLAY_DIR=$PWD/soak/$s timeout 1500 ./check $id quick > soak/$s/$id.log 2>&1
    echo "seed=$s $id exit=$? $(grep -E 'VIOLATION|HARNESS|KNOWN' soak/$s/$id.log | head -3 | tr '\n' ' ')"
  done
done
