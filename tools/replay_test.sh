#!/bin/sh
# usage: replay_test.sh <seeded id> <check id> [budget]  -- find a violation on the changed tree, replay it there (must reproduce) and on the clean tree (must not)
M=$1; ID=$2; W=/tmp/rt_$$; OUT=/tmp/rt_out_$$
git -C /repo worktree add -q --detach $W HEAD || exit 3
( cd $W && git apply /verif/seeded/$M/patch.diff ) || exit 3
mkdir -p $OUT
cd /verif && ESRSIM_REPO=$W ESRSIM_EVIDENCE_DIR=$OUT ESRSIM_REPLAY_DIR=$OUT VERIF_BUDGET_S=${3:-25} ./check $ID quick > $OUT/log 2>&1
N=0; R=0; C=0
for F in $OUT/$ID-*.json; do
  [ -f "$F" ] || continue
  N=$((N+1))
  ESRSIM_REPO=$W ./check replay $F > $OUT/r1 2>&1; [ $? -eq 1 ] && R=$((R+1))
  ./check replay $F > $OUT/r2 2>&1; [ $? -eq 1 ] && C=$((C+1))
done
echo "REPLAY-TEST $M/$ID: violations=$N reproduced_on_changed_tree=$R reproduced_on_clean_tree=$C"
git -C /repo worktree remove --force $W; rm -rf $OUT
