#!/venv/bin/python
"""Reach report: which executable source lines of /repo/esr were executed by the simulated worlds of the checks.

usage:  tools/reach.py run [ids...]     run the quick tiers with the reach probe on (evidence/replays redirected)
        tools/reach.py report           aggregate /dev/shm/esrsim-reach/<id>/ into reach/REPORT.md

The probe (esrsim/world.py, ESRSIM_REACH_DIR) uses sys.monitoring LINE events that disable themselves after the first
hit; it draws nothing from the PRNG and reads no clock.  A line that no world executes is a blind spot: no change there
can be detected, whatever the oracle.
"""
import ast
import glob
import os
import subprocess
import sys

VERIF = os.path.dirname(os.path.dirname(os.path.abspath(__file__)))
REPO = os.environ.get('ESRSIM_REPO', '/repo')
ROOT = '/dev/shm/esrsim-reach'
IDS = ['C03', 'C06', 'C13', 'C14', 'C15', 'C16', 'C17']
FILES = ['generation/duplicate_checker.py', 'generation/generator.py', 'generation/simplifier.py', 'generation/utils.py',
         'fitting/test_all.py', 'fitting/test_all_Fisher.py', 'fitting/match.py', 'fitting/combine_DL.py',
         'fitting/likelihood.py', 'fitting/fit_single.py', 'fitting/sympy_symbols.py', 'fitting/plot.py']


def executable_lines(path):
    src = open(path).read()
    code = compile(src, path, 'exec')
    lines = set()
    todo = [code]
    while todo:
        c = todo.pop()
        for _, _, ln in c.co_lines():
            if ln:
                lines.add(ln)
        todo.extend(k for k in c.co_consts if hasattr(k, 'co_lines'))
    # drop docstring-only / def lines: keep statements inside functions
    tree = ast.parse(src)
    func_of = {}
    for node in ast.walk(tree):
        if isinstance(node, (ast.FunctionDef, ast.AsyncFunctionDef)):
            for ln in range(node.lineno, node.end_lineno + 1):
                func_of.setdefault(ln, node.name)
                if node.end_lineno - node.lineno < func_of.get(('span', ln), 10 ** 9):
                    func_of[('span', ln)] = node.end_lineno - node.lineno
                    func_of[ln] = node.name
    return lines, func_of, src.splitlines()


def run(ids):
    for pid in ids:
        d = '%s/%s' % (ROOT, pid)
        subprocess.run(['rm', '-rf', d])
        os.makedirs(d)
        out = '%s/%s-out' % (ROOT, pid)
        os.makedirs(out, exist_ok=True)
        env = dict(os.environ, ESRSIM_REACH_DIR=d, ESRSIM_EVIDENCE_DIR=out, ESRSIM_REPLAY_DIR=out)
        with open('%s/log' % out, 'w') as f:
            rc = subprocess.run([os.path.join(VERIF, 'check'), pid, 'quick'], env=env, stdout=f, stderr=subprocess.STDOUT).returncode
        print('reach run %s exit=%d files=%d' % (pid, rc, len(os.listdir(d))), flush=True)


def report():
    hits = {}      # file -> line -> set(ids)
    for pid in IDS:
        merged = set()
        for fn in glob.glob('%s/%s/*.txt' % (ROOT, pid)):
            with open(fn) as f:
                merged.update(l.strip() for l in f)
        for ent in merged:
            fn, ln = ent.rsplit(':', 1)
            fn = fn[4:] if fn.startswith('esr/') else fn
            hits.setdefault(fn, {}).setdefault(int(ln), set()).add(pid)
    os.makedirs(os.path.join(VERIF, 'reach'), exist_ok=True)
    out = ['# Reach of the quick tiers: executable lines of /repo/esr executed by at least one simulated world', '',
           '| file | executable lines | executed | not executed |', '|---|---|---|---|']
    detail = []
    for rel in FILES:
        path = os.path.join(REPO, 'esr', rel)
        if not os.path.exists(path):
            continue
        lines, func_of, src = executable_lines(path)
        h = hits.get(rel, {})
        miss = sorted(l for l in lines if l not in h)
        out.append('| esr/%s | %d | %d | %d |' % (rel, len(lines), len(lines) - len(miss), len(miss)))
        # group misses into runs
        runs, cur = [], []
        for l in miss:
            if cur and l - cur[-1] > 2:
                runs.append(cur)
                cur = []
            cur.append(l)
        if cur:
            runs.append(cur)
        detail.append('\n## esr/%s\n' % rel)
        for r in runs:
            detail.append('- %s:%d-%d  in `%s`: `%s`' % (os.path.basename(rel), r[0], r[-1], func_of.get(r[0], '<module>'),
                                                      src[r[0] - 1].strip()[:110]))
    out += ['', 'Not-executed line runs (first line shown):'] + detail
    with open(os.path.join(VERIF, 'reach', 'REPORT.md'), 'w') as f:
        f.write('\n'.join(out) + '\n')
    print('\n'.join(out[:20]))


if __name__ == '__main__':
    if len(sys.argv) > 1 and sys.argv[1] == 'run':
        run(sys.argv[2:] or IDS)
        report()
    else:
        report()
