#!/bin/sh
# Re-run every seeded change under /verif/seeded against the check recorded in its meta.json (quick tier, bounded
# exploration budget).  Writes /verif/seeded/RESULTS.txt.  Usage: tools/run_all_mutants.sh [budget_s]
B=${1:-60}
OUT=/verif/seeded/RESULTS.txt
echo "# seeded change -> check, exit code (1 = violation reported = detected), first signature; budget ${B}s; repo $(git -C /repo rev-parse --short HEAD)" > $OUT
for D in /verif/seeded/C*/; do
  M=$(basename $D)
  ID=$(/venv/bin/python -c "import json;m=json.load(open('$D/meta.json'));c=m['detected_by']['check'];print(c if c!='none' else m['written_for_property'])")
  BB=$B; [ "$ID" = C03 ] && BB=0      # C03 walks a fixed configuration list: give it its default budget
  R=$(/verif/tools/try_mutant.sh $D/patch.diff $ID quick $BB 2>&1 | grep -v WARNING)
  RC=$(echo "$R" | grep -o "exit=[0-9]*" | head -1)
  SIG=$(echo "$R" | grep "signature:" | head -1 | sed 's/^ *signature: //; s/   (seen.*//')
  echo "$M $ID $RC $SIG" | tee -a $OUT
done
echo "# detected: $(grep -c 'exit=1' $OUT) of $(grep -vc '^#' $OUT)" | tee -a $OUT
