#!/bin/sh
# thorough tiers with redirected evidence (smoke: do they run to completion and exit 0 on the unchanged tree?)
for id in "$@"; do
  mkdir -p thor/$id
  ESRSIM_EVIDENCE_DIR=$PWD/thor/$id ESRSIM_REPLAY_DIR=$PWD/thor/$id ./check $id thorough > thor/$id/log 2>&1
  echo "$id thorough exit=$? $(grep -E 'VIOLATION|HARNESS' thor/$id/log | head -3 | tr '\n' ' ')"
done
