"""ROW oracles for the fitting-stage outputs and TILE for work partitioning."""
import csv
import math

import mpmath as mp

from .libsound import ev, nparams

REL = 1e-3


def read_table(path):
    rows = []
    with open(path) as f:
        for ln in f:
            ln = ln.strip()
            if ln:
                rows.append([float(t) for t in ln.split()])
    return rows


def read_lines(path):
    with open(path) as f:
        return f.read().splitlines()


def nll_model(kind, data, fstr, params):
    """Independent evaluation of the documented negative log-likelihood (C09 formulas) with the
    30-digit evaluator.  Returns float, math.inf, or None if the function cannot be evaluated here."""
    env = {'a%d' % j: mp.mpf(p) for j, p in enumerate(params)}
    tot = mp.mpf(0)
    for row in data:
        x = mp.mpf(row[0])
        if kind in ('Mock', 'CC'):
            x = x + 1
        f = ev(fstr, dict(env, x=x))
        if f == 'syntax':
            return None
        if f is None:
            return math.inf
        y = mp.mpf(row[1])
        if kind == 'Gauss':
            s = mp.mpf(row[2])
            tot += (y - f) ** 2 / (2 * s * s) + mp.log(2 * mp.pi) / 2 + mp.log(s)
        elif kind == 'Poisson':
            if f <= 0:
                return math.inf
            tot += f - y * mp.log(f)
        elif kind in ('Mock', 'CC'):
            if f < 0:
                return math.inf
            s = mp.mpf(row[2])
            tot += (mp.sqrt(f) - y) ** 2 / (2 * s * s)
        else:
            raise ValueError(kind)
    return float(tot)


def close(a, b, rel=REL, abs_=1e-6):
    if a is None or b is None:
        return True
    if math.isinf(a) or math.isinf(b):
        return a == b
    return abs(a - b) <= abs_ + rel * max(abs(a), abs(b))


def agrees(nll, kind, data, fstr, params):
    """Does the reported likelihood belong to this function at these parameters?  The files carry 8 significant digits of
    every parameter; for ill-conditioned functions (1/sin(a0) near a pole) that rounding alone moves the likelihood by more
    than any fixed tolerance, so on a mismatch the sensitivity to a change of the last printed digit is measured and allowed for."""
    m = nll_model(kind, data, fstr, params)
    if close(nll, m):
        return True, m
    if m is None or not params:
        return True, m
    spread = 0.0
    for j in range(len(params)):
        for sgn in (1, -1):
            q = list(params)
            q[j] = q[j] * (1 + sgn * 2e-7) if q[j] else sgn * 1e-12
            mq = nll_model(kind, data, fstr, q)
            if mq is None or math.isinf(mq) or math.isinf(m):
                return True, m          # a pole / domain edge within rounding distance: no verdict
            spread = max(spread, abs(mq - m))
    return abs(nll - m) <= 1e-6 + REL * max(abs(nll), abs(m)) + 25 * spread, m


def tile(slices, N):
    """slices: list over ranks of (s, e) half-open.  Returns list of problems."""
    probs = []
    if not slices:
        return [('no-slices',)]
    if slices[0][0] != 0 and slices[0][1] != slices[0][0]:
        probs.append(('first-start', slices[0]))
    pos = 0
    for r, (s, e) in enumerate(slices):
        if s > e:
            probs.append(('negative', r, s, e))
        if e > s:
            if s != pos:
                probs.append(('gap-or-overlap', r, s, pos))
            pos = e
    if pos != N:
        probs.append(('cover', pos, N))
    return probs


def check_negloglike(path, uniq, kind, data, stats):
    probs = []
    rows = read_table(path)
    if len(rows) != len(uniq):
        return [('rows', 'negloglike', len(rows), len(uniq))]
    for i, (row, f) in enumerate(zip(rows, uniq)):
        k = nparams(f)
        nll, params = row[0], row[1:]
        if any(p != 0 for p in params[k:]):
            probs.append(('extra-params-nonzero', 'negloglike', i, f, params))
        # optimise_fun only stores parameters when the best likelihood is < 1e100
        if math.isfinite(nll) and abs(nll) < 1e100:
            ok, m = agrees(nll, kind, data, f, params[:k])
            stats['nll_rows_checked'] = stats.get('nll_rows_checked', 0) + 1
            if not ok:
                probs.append(('nll-mismatch', 'negloglike', i, f, nll, m))
    return probs


def check_codelen(path, uniq, kind, data, stats):
    probs = []
    rows = read_table(path)
    if len(rows) != len(uniq):
        return [('rows', 'codelen', len(rows), len(uniq))]
    for i, (row, f) in enumerate(zip(rows, uniq)):
        k = nparams(f)
        cl, nll, params = row[0], row[1], row[2:]
        if math.isfinite(nll) and abs(nll) < 1e100 and math.isfinite(cl) and k > 0:
            ok, m = agrees(nll, kind, data, f, params[:k])
            stats['codelen_rows_checked'] = stats.get('codelen_rows_checked', 0) + 1
            if not ok:
                probs.append(('nll-mismatch', 'codelen', i, f, nll, m))
    return probs


def check_matches(path, allf, matches, stats, kind=None, data=None):
    probs = []
    rows = read_table(path)
    if len(rows) != len(allf):
        return [('rows', 'codelen_matches', len(rows), len(allf))]
    for i, row in enumerate(rows):
        if int(row[2]) != matches[i]:
            probs.append(('match-column', i, row[2], matches[i]))
            break
    if kind is not None and not probs:
        # row i refers to function i: where a finite code length was assigned, the likelihood of row i is the likelihood of
        # function i at the parameters of row i (whether or not parameters were set to zero on the way)
        for i, (row, f) in enumerate(zip(rows, allf)):
            nll, cl, params = row[0], row[1], row[3:]
            k = nparams(f)
            if math.isfinite(nll) and abs(nll) < 1e100 and math.isfinite(cl) and k > 0:
                ok, m = agrees(nll, kind, data, f, params[:k])
                stats['match_rows_checked'] = stats.get('match_rows_checked', 0) + 1
                if not ok:
                    probs.append(('nll-mismatch', 'matches', i, f, nll, m))
                    break
    return probs


def read_final(path):
    with open(path) as f:
        return [r for r in csv.reader(f, delimiter=';')]


def check_final(path, allf, kind, data, stats):
    probs = []
    rows = read_final(path)
    prev = -math.inf
    for k, r in enumerate(rows):
        if int(r[0]) != k:
            probs.append(('rank-number', k, r[0]))
        dl = float(r[2])
        if dl < prev:
            probs.append(('order', k))
        prev = dl
        if math.isfinite(dl):
            nll, cl, aif = float(r[4]), float(r[5]), float(r[6])
            if abs(nll + cl + aif - dl) > 1e-9 * max(1, abs(dl)):
                probs.append(('sum', k, dl, nll, cl, aif))
            f = r[1]
            if f in allf:
                kk = nparams(f)
                params = [float(t) for t in r[7:]]
                ok, m = agrees(nll, kind, data, f, params[:kk])
                stats['final_rows_checked'] = stats.get('final_rows_checked', 0) + 1
                if not ok:
                    probs.append(('nll-mismatch', 'final', k, f, nll, m))
            else:
                probs.append(('unknown-function', k, f))
    return probs
