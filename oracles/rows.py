"""ROW oracles for the fitting-stage outputs and TILE for work partitioning."""
import csv
import math

import mpmath as mp

from .libsound import ev, nparams

REL = 1e-3


def read_table(path):
    rows = []
    with open(path) as f:
        for ln in f:
            ln = ln.strip()
            if ln:
                rows.append([float(t) for t in ln.split()])
    return rows


def read_lines(path):
    with open(path) as f:
        return f.read().splitlines()


def nll_model(kind, data, fstr, params):
    """Independent evaluation of the documented negative log-likelihood (C09 formulas) with the
    30-digit evaluator.  Returns float, math.inf, or None if the function cannot be evaluated here."""
    env = {'a%d' % j: mp.mpf(p) for j, p in enumerate(params)}
    tot = mp.mpf(0)
    for row in data:
        x = mp.mpf(row[0])
        if kind in ('Mock', 'CC'):
            x = x + 1
        f = ev(fstr, dict(env, x=x))
        if f == 'syntax':
            return None
        if f is None:
            return math.inf
        y = mp.mpf(row[1])
        if kind == 'Gauss':
            s = mp.mpf(row[2])
            tot += (y - f) ** 2 / (2 * s * s) + mp.log(2 * mp.pi) / 2 + mp.log(s)
        elif kind == 'Poisson':
            if f <= 0:
                return math.inf
            tot += f - y * mp.log(f)
        elif kind in ('Mock', 'CC'):
            if f < 0:
                return math.inf
            s = mp.mpf(row[2])
            tot += (mp.sqrt(f) - y) ** 2 / (2 * s * s)
        else:
            raise ValueError(kind)
    return float(tot)


def close(a, b, rel=REL, abs_=1e-6):
    if a is None or b is None:
        return True
    if math.isinf(a) or math.isinf(b):
        return a == b
    return abs(a - b) <= abs_ + rel * max(abs(a), abs(b))


def agrees(nll, kind, data, fstr, params):
    """Does the reported likelihood belong to this function at these parameters?  The files carry 8 significant digits of
    every parameter; for ill-conditioned functions (1/sin(a0) near a pole) that rounding alone moves the likelihood by more
    than any fixed tolerance, so on a mismatch the sensitivity to a change of the last printed digit is measured and allowed for."""
    m = nll_model(kind, data, fstr, params)
    if close(nll, m):
        return True, m
    if m is None or not params:
        return True, m
    spread = 0.0
    for j in range(len(params)):
        for sgn in (1, -1):
            q = list(params)
            q[j] = q[j] * (1 + sgn * 2e-7) if q[j] else sgn * 1e-12
            mq = nll_model(kind, data, fstr, q)
            if mq is None or math.isinf(mq) or math.isinf(m):
                return True, m          # a pole / domain edge within rounding distance: no verdict
            spread = max(spread, abs(mq - m))
    return abs(nll - m) <= 1e-6 + REL * max(abs(nll), abs(m)) + 25 * spread, m


def tile(slices, N):
    """slices: list over ranks of (s, e) half-open.  Returns list of problems."""
    probs = []
    if not slices:
        return [('no-slices',)]
    if slices[0][0] != 0 and slices[0][1] != slices[0][0]:
        probs.append(('first-start', slices[0]))
    pos = 0
    for r, (s, e) in enumerate(slices):
        if s > e:
            probs.append(('negative', r, s, e))
        if e > s:
            if s != pos:
                probs.append(('gap-or-overlap', r, s, pos))
            pos = e
    if pos != N:
        probs.append(('cover', pos, N))
    return probs


def check_negloglike(path, uniq, kind, data, stats):
    probs = []
    rows = read_table(path)
    if len(rows) != len(uniq):
        return [('rows', 'negloglike', len(rows), len(uniq))]
    for i, (row, f) in enumerate(zip(rows, uniq)):
        k = nparams(f)
        nll, params = row[0], row[1:]
        if any(p != 0 for p in params[k:]):
            probs.append(('extra-params-nonzero', 'negloglike', i, f, params))
        # optimise_fun only stores parameters when the best likelihood is < 1e100
        if math.isfinite(nll) and abs(nll) < 1e100:
            ok, m = agrees(nll, kind, data, f, params[:k])
            stats['nll_rows_checked'] = stats.get('nll_rows_checked', 0) + 1
            if not ok:
                probs.append(('nll-mismatch', 'negloglike', i, f, nll, m))
    return probs


def check_codelen(path, uniq, kind, data, stats):
    probs = []
    rows = read_table(path)
    if len(rows) != len(uniq):
        return [('rows', 'codelen', len(rows), len(uniq))]
    for i, (row, f) in enumerate(zip(rows, uniq)):
        k = nparams(f)
        cl, nll, params = row[0], row[1], row[2:]
        if math.isfinite(nll) and abs(nll) < 1e100 and math.isfinite(cl) and k > 0:
            ok, m = agrees(nll, kind, data, f, params[:k])
            stats['codelen_rows_checked'] = stats.get('codelen_rows_checked', 0) + 1
            if not ok:
                probs.append(('nll-mismatch', 'codelen', i, f, nll, m))
    return probs


def check_matches(path, allf, matches, stats, kind=None, data=None):
    probs = []
    rows = read_table(path)
    if len(rows) != len(allf):
        return [('rows', 'codelen_matches', len(rows), len(allf))]
    for i, row in enumerate(rows):
        if int(row[2]) != matches[i]:
            probs.append(('match-column', i, row[2], matches[i]))
            break
    if kind is not None and not probs:
        # row i refers to function i: where a finite code length was assigned, the likelihood of row i is the likelihood of
        # function i at the parameters of row i (whether or not parameters were set to zero on the way)
        for i, (row, f) in enumerate(zip(rows, allf)):
            nll, cl, params = row[0], row[1], row[3:]
            k = nparams(f)
            if math.isfinite(nll) and abs(nll) < 1e100 and math.isfinite(cl) and k > 0:
                ok, m = agrees(nll, kind, data, f, params[:k])
                stats['match_rows_checked'] = stats.get('match_rows_checked', 0) + 1
                if not ok:
                    probs.append(('nll-mismatch', 'matches', i, f, nll, m))
                    break
    return probs


def check_derivs(deriv_path, codelen_path, uniq, stats):
    """Structure of the second-derivative table: one row per unique function, each holding the upper triangle of an
    n x n matrix, n = number of parameter columns of the table written next to it by the same stage."""
    probs = []
    drows = read_table(deriv_path)
    crows = read_table(codelen_path)
    if len(drows) != len(uniq):
        return [('rows', 'derivs', len(drows), len(uniq))]
    if not crows:
        return probs
    n = len(crows[0]) - 2
    want = n * (n + 1) // 2
    for i, r in enumerate(drows):
        if len(r) != want:
            probs.append(('derivs-width', 'derivs', i, len(r), want))
            break
    stats['derivs_rows_checked'] = stats.get('derivs_rows_checked', 0) + len(drows)
    return probs


def check_identity_variants(matches_path, codelen_path, deriv_path, allf, uniq, matches, chains, stats):
    """Row i of the match stage refers to function i - cross-stage form.  A function whose text IS its unique function and
    whose recorded chain is empty receives the unique's parameters untransformed, so in the plain case (every stored parameter
    of the unique non-zero and at least one precision step away from zero, positive finite second derivatives, finite
    likelihood and code length) the match stage evaluates the same closed form on the same stored numbers as the previous
    stage: codelen = -k/2 ln 3 + sum(1/2 ln H_jj + ln|p_j|).  The expected value is recomputed here from the two input
    files of the match stage; likelihood and parameters must be carried over unchanged."""
    probs = []
    mrows = read_table(matches_path)
    crows = read_table(codelen_path)
    drows = read_table(deriv_path)
    if len(mrows) != len(allf) or len(crows) != len(uniq) or len(drows) != len(uniq) or not crows:
        return probs                  # row counts are reported by the other oracles
    n = len(crows[0]) - 2
    if any(len(r) != n * (n + 1) // 2 for r in drows):
        return probs
    for i, f in enumerate(allf):
        j = matches[i]
        if not (0 <= j < len(uniq)) or uniq[j] != f or (chains[i] if i < len(chains) else '').strip():
            continue
        k = nparams(f)
        if k == 0 or k > n:
            continue
        cl_u, nll_u, p_u = crows[j][0], crows[j][1], crows[j][2:2 + k]
        if not (math.isfinite(cl_u) and math.isfinite(nll_u) and abs(nll_u) < 1e100):
            continue
        diag = [drows[j][int(a * n - (a - 1) * a / 2)] for a in range(k)]
        if any((not math.isfinite(h)) or h <= 0 for h in diag) or any(p == 0 or not math.isfinite(p) for p in p_u):
            continue
        nsteps = [abs(p) / math.sqrt(12.0 / h) for p, h in zip(p_u, diag)]
        if min(nsteps) < 1.05:        # at (or within rounding of) the snapping threshold the stages may legitimately differ
            continue
        want = -k / 2.0 * math.log(3.0) + sum(0.5 * math.log(h) + math.log(abs(p)) for p, h in zip(p_u, diag))
        nll_m, cl_m, p_m = mrows[i][0], mrows[i][1], mrows[i][3:3 + k]
        stats['identity_variants_checked'] = stats.get('identity_variants_checked', 0) + 1
        if not (math.isfinite(cl_m) and abs(cl_m - want) <= 1e-4 + 1e-5 * abs(want)):
            probs.append(('identity-variant-codelen', 'matches', i, f, cl_m, want))
            break
        if not close(nll_m, nll_u, rel=1e-6) or any(not close(a, b, rel=1e-6, abs_=0.0) for a, b in zip(p_m, p_u)):
            probs.append(('identity-variant-row', 'matches', i, f, [nll_m] + p_m, [nll_u] + p_u))
            break
    return probs


def read_final(path):
    with open(path) as f:
        return [r for r in csv.reader(f, delimiter=';')]


def check_final(path, allf, kind, data, stats):
    probs = []
    rows = read_final(path)
    prev = -math.inf
    for k, r in enumerate(rows):
        if int(r[0]) != k:
            probs.append(('rank-number', k, r[0]))
        dl = float(r[2])
        if dl < prev:
            probs.append(('order', k))
        prev = dl
        if math.isfinite(dl):
            nll, cl, aif = float(r[4]), float(r[5]), float(r[6])
            if abs(nll + cl + aif - dl) > 1e-9 * max(1, abs(dl)):
                probs.append(('sum', k, dl, nll, cl, aif))
            f = r[1]
            if f in allf:
                kk = nparams(f)
                params = [float(t) for t in r[7:]]
                ok, m = agrees(nll, kind, data, f, params[:kk])
                stats['final_rows_checked'] = stats.get('final_rows_checked', 0) + 1
                if not ok:
                    probs.append(('nll-mismatch', 'final', k, f, nll, m))
            else:
                probs.append(('unknown-function', k, f))
    return probs
