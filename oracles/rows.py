"""ROW oracles for the fitting-stage outputs and TILE for work partitioning."""
import csv
import math

import mpmath as mp

from .libsound import ev, nparams

REL = 1e-3


def read_table(path):
    rows = []
    with open(path) as f:
        for ln in f:
            ln = ln.strip()
            if ln:
                rows.append([float(t) for t in ln.split()])
    return rows


def read_lines(path):
    with open(path) as f:
        return f.read().splitlines()


def nll_model(kind, data, fstr, params):
    """Independent evaluation of the documented negative log-likelihood (C09 formulas) with the
    30-digit evaluator.  Returns float, math.inf, or None if the function cannot be evaluated here."""
    env = {'a%d' % j: mp.mpf(p) for j, p in enumerate(params)}
    tot = mp.mpf(0)
    for row in data:
        x = mp.mpf(row[0])
        if kind in ('Mock', 'CC'):
            x = x + 1
        f = ev(fstr, dict(env, x=x))
        if f == 'syntax':
            return None
        if f is None:
            return math.inf
        y = mp.mpf(row[1])
        if kind == 'Gauss':
            s = mp.mpf(row[2])
            tot += (y - f) ** 2 / (2 * s * s) + mp.log(2 * mp.pi) / 2 + mp.log(s)
        elif kind == 'Poisson':
            if f <= 0:
                return math.inf
            tot += f - y * mp.log(f)
        elif kind in ('Mock', 'CC'):
            if f < 0:
                return math.inf
            s = mp.mpf(row[2])
            tot += (mp.sqrt(f) - y) ** 2 / (2 * s * s)
        else:
            raise ValueError(kind)
    return float(tot)


def close(a, b, rel=REL, abs_=1e-6):
    if a is None or b is None:
        return True
    if math.isinf(a) or math.isinf(b):
        return a == b
    return abs(a - b) <= abs_ + rel * max(abs(a), abs(b))


def tile(slices, N):
    """slices: list over ranks of (s, e) half-open.  Returns list of problems."""
    probs = []
    if not slices:
        return [('no-slices',)]
    if slices[0][0] != 0 and slices[0][1] != slices[0][0]:
        probs.append(('first-start', slices[0]))
    pos = 0
    for r, (s, e) in enumerate(slices):
        if s > e:
            probs.append(('negative', r, s, e))
        if e > s:
            if s != pos:
                probs.append(('gap-or-overlap', r, s, pos))
            pos = e
    if pos != N:
        probs.append(('cover', pos, N))
    return probs


def check_negloglike(path, uniq, kind, data, stats):
    probs = []
    rows = read_table(path)
    if len(rows) != len(uniq):
        return [('rows', 'negloglike', len(rows), len(uniq))]
    for i, (row, f) in enumerate(zip(rows, uniq)):
        k = nparams(f)
        nll, params = row[0], row[1:]
        if any(p != 0 for p in params[k:]):
            probs.append(('extra-params-nonzero', 'negloglike', i, f, params))
        # optimise_fun only stores parameters when the best likelihood is < 1e100
        if math.isfinite(nll) and abs(nll) < 1e100:
            m = nll_model(kind, data, f, params[:k])
            stats['nll_rows_checked'] = stats.get('nll_rows_checked', 0) + 1
            if m is not None and not close(nll, m):
                probs.append(('nll-mismatch', 'negloglike', i, f, nll, m))
    return probs


def check_codelen(path, uniq, kind, data, stats):
    probs = []
    rows = read_table(path)
    if len(rows) != len(uniq):
        return [('rows', 'codelen', len(rows), len(uniq))]
    for i, (row, f) in enumerate(zip(rows, uniq)):
        k = nparams(f)
        cl, nll, params = row[0], row[1], row[2:]
        if math.isfinite(nll) and abs(nll) < 1e100 and math.isfinite(cl) and k > 0:
            m = nll_model(kind, data, f, params[:k])
            stats['codelen_rows_checked'] = stats.get('codelen_rows_checked', 0) + 1
            if m is not None and not close(nll, m):
                probs.append(('nll-mismatch', 'codelen', i, f, nll, m))
    return probs


def check_matches(path, allf, matches, stats):
    probs = []
    rows = read_table(path)
    if len(rows) != len(allf):
        return [('rows', 'codelen_matches', len(rows), len(allf))]
    for i, row in enumerate(rows):
        if int(row[2]) != matches[i]:
            probs.append(('match-column', i, row[2], matches[i]))
            break
    return probs


def read_final(path):
    with open(path) as f:
        return [r for r in csv.reader(f, delimiter=';')]


def check_final(path, allf, kind, data, stats):
    probs = []
    rows = read_final(path)
    prev = -math.inf
    for k, r in enumerate(rows):
        if int(r[0]) != k:
            probs.append(('rank-number', k, r[0]))
        dl = float(r[2])
        if dl < prev:
            probs.append(('order', k))
        prev = dl
        if math.isfinite(dl):
            nll, cl, aif = float(r[4]), float(r[5]), float(r[6])
            if abs(nll + cl + aif - dl) > 1e-9 * max(1, abs(dl)):
                probs.append(('sum', k, dl, nll, cl, aif))
            f = r[1]
            if f in allf:
                kk = nparams(f)
                params = [float(t) for t in r[7:]]
                m = nll_model(kind, data, f, params[:kk])
                stats['final_rows_checked'] = stats.get('final_rows_checked', 0) + 1
                if m is not None and not close(nll, m):
                    probs.append(('nll-mismatch', 'final', k, f, nll, m))
            else:
                probs.append(('unknown-function', k, f))
    return probs
