"""LIB-SOUND: executable statement of C03 over the library files of one complexity directory.

Written without sympy: a small mpmath evaluator at 30 digits.  ESR function strings use
pow/sqrt/log with absolute-value semantics; map strings come from sympy's str printer and use
plain semantics (Abs is explicit there).

Returned problems are tuples (kind, ...).  'inconclusive' is never a violation.
"""
import ast
import csv
import re

import mpmath as mp

mp.mp.dps = 30
TOL = mp.mpf(10) ** -15


BIG = 23000          # natural-log magnitude cap (~1e10000): beyond it an intermediate counts as non-finite


def _chk(t):
    """Guard against towers (exp of exp ...): mpmath would try to build numbers with astronomically many digits."""
    try:
        if t > BIG:
            raise OverflowError('magnitude cap')
    except TypeError:
        pass


def _lnabs(a):
    if isinstance(a, mp.mpc):
        a = abs(a)
    a = abs(a)
    if a == 0:
        return mp.mpf('-inf')
    return mp.log(a)


def _spow(a, b):
    """plain power (sympy str semantics) with magnitude guard"""
    if not isinstance(b, mp.mpc) and a != 0:
        _chk(b * _lnabs(a))
    return mp.power(a, b)


def _pow(a, b):
    """ESR pow: |a|**b"""
    return _spow(abs(a), b)


def _exp(a):
    if not isinstance(a, mp.mpc):
        _chk(a)
    else:
        _chk(a.real)
    return mp.exp(a)


def _tenexp(a):
    return _spow(mp.mpf(10), a)


NS = {'pow': _pow, 'Abs': lambda a: abs(a), 'exp': _exp, 'log': lambda a: mp.log(abs(a)),
      'sqrt': lambda a: mp.sqrt(abs(a)), 'sin': mp.sin, 'cos': mp.cos, 'sign': mp.sign,
      'inv': lambda a: 1 / a, 'square': lambda a: a * a, 'cube': lambda a: a * a * a,
      'sqrt_abs': lambda a: mp.sqrt(abs(a)), 'log_abs': lambda a: mp.log(abs(a)),
      'log10_abs': lambda a: mp.log(abs(a), 10), 'tenexp': _tenexp,
      'nan': mp.nan, 'zoo': mp.inf, 'oo': mp.inf, 'E': mp.e, 'pi': mp.pi, 'I': mp.mpc(0, 1), '_spow': _spow}
NS_MAP = dict(NS)
NS_MAP.update({'log': lambda a, b=None: mp.log(a) if b is None else mp.log(a, b), 'sqrt': mp.sqrt})
PARAM = re.compile(r'(?<![A-Za-z0-9_])a(\d+)(?![0-9A-Za-z_])')


class _Fix(ast.NodeTransformer):
    """numbers -> exact mpf, a**b -> _spow(a, b)"""

    def visit_BinOp(self, node):
        self.generic_visit(node)
        if isinstance(node.op, ast.Pow):
            return ast.copy_location(ast.Call(ast.Name('_spow', ast.Load()), [node.left, node.right], []), node)
        return node

    def visit_Constant(self, node):
        if isinstance(node.value, (int, float)) and not isinstance(node.value, bool):
            return ast.copy_location(ast.Call(ast.Name('mpf', ast.Load()), [ast.Constant(repr(node.value))], []), node)
        return node


def _compile(s):
    tree = ast.parse(s.strip(), '<f>', 'eval')
    tree = ast.fix_missing_locations(_Fix().visit(tree))
    return compile(tree, '<f>', 'eval')


_code_cache = {}


def ev(s, env, ns=NS, complex_ok=False):
    """Evaluate string s at env; None if not a finite real number there (complex_ok: a finite complex value is returned
    as mpc - used for intermediate parameter values, so that substitution is followed through the complex plane the way the
    symbolic substitution f(p(theta)) is)."""
    if 'class' in s or s.strip() in ('nan', ''):
        return None
    code = _code_cache.get(s)
    if code is None:
        try:
            code = _compile(s)
        except (SyntaxError, ValueError, RecursionError):
            code = False
        if len(_code_cache) > 200000:
            _code_cache.clear()
        _code_cache[s] = code
    if code is False:
        return 'syntax'
    e = dict(ns)
    e.update(env)
    e['mpf'] = mp.mpf
    try:
        v = eval(code, {'__builtins__': {}}, e)
    except (ZeroDivisionError, ValueError, OverflowError, mp.libmp.NoConvergence, TypeError, NameError):
        return None
    if isinstance(v, mp.mpc):
        if abs(v.imag) > mp.mpf(10) ** -20 * (1 + abs(v.real)):
            if complex_ok and mp.isfinite(v.real) and mp.isfinite(v.imag):
                return v
            return None
        v = v.real
    try:
        v = mp.mpf(v)
    except Exception:
        return None
    if not mp.isfinite(v):
        return None
    return v


def split_top(body):
    depth = 0
    cur = ''
    parts = []
    for ch in body:
        if ch in '([{':
            depth += 1
        if ch in ')]}':
            depth -= 1
        if ch == ',' and depth == 0:
            parts.append(cur)
            cur = ''
        else:
            cur += ch
    if cur.strip():
        parts.append(cur)
    return parts


def parse_step(s):
    """'{a0: -a0, a1: a0}' -> {'a0': '-a0', 'a1': 'a0'}; 'nan' -> None."""
    s = s.strip()
    if s == 'nan':
        return None
    if not (s.startswith('{') and s.endswith('}')):
        raise ValueError('not a map: %r' % s)
    d = {}
    for p in split_top(s[1:-1]):
        k, v = p.split(':', 1)
        d[k.strip()] = v.strip()
    return d


def parse_chain(row):
    """list of step strings -> list of dicts, or None if any step is nan."""
    out = []
    for s in row:
        st = parse_step(s)
        if st is None:
            return None
        out.append(st)
    return out


def apply_chain(chain, theta):
    """convert_params semantics: p = (a0..ak-1); for step in chain: p = p.subs(step, simultaneous).
    Numerically: the LAST step acts first on theta.  Keys may be compound expressions
    (e.g. 'a0 + a1', 'Abs(a0)*Abs(a1)') - subs on a vector of bare symbols can only hit bare
    symbols, so compound keys are inert here, exactly as in sympy."""
    th = dict(theta)
    for step in reversed(chain):
        new = dict(th)
        for k, v in step.items():
            if k not in th:
                continue
            val = ev(v, th, NS_MAP, complex_ok=True)
            if val is None or (isinstance(val, str) and val == 'syntax'):
                return None
            new[k] = val
        th = new
    return th


def _both(f, u, chain, th, x):
    pt = apply_chain(chain, th)
    if pt is None:
        return None
    lhs = ev(f, dict(pt, x=x))
    rhs = ev(u, dict(th, x=x))
    if lhs is None or rhs is None or lhs == 'syntax' or rhs == 'syntax':
        return None
    return lhs, rhs


def _recheck(f, u, chain, th, x):
    """'equal' | 'noise' | 'differs' for one evaluation point.  The point is re-evaluated with 80 and 200
    digits; if either side is not stable between the two precisions the evaluation is ill-conditioned there
    (towers, sin of a huge argument, cancellation) and the point says nothing."""
    old = mp.mp.dps
    try:
        mp.mp.dps = 80
        v1 = _both(f, u, chain, th, x)
        mp.mp.dps = 200
        v2 = _both(f, u, chain, th, x)
        if v1 is None or v2 is None:
            return 'noise'
        stab = mp.mpf(10) ** -40
        for a, b in zip(v1, v2):
            if abs(a - b) > stab * (1 + abs(a) + abs(b)):
                return 'noise'
        if abs(v2[0] - v2[1]) <= TOL * (1 + abs(v2[0]) + abs(v2[1])):
            return 'equal'
        return 'differs'
    finally:
        mp.mp.dps = old


def nparams(s):
    idx = [int(m) for m in PARAM.findall(s)]
    return (max(idx) + 1) if idx else 0


def param_gaps(s):
    idx = sorted({int(m) for m in PARAM.findall(s)})
    return idx != list(range(len(idx)))


def read_library(d, compl):
    def rd(f):
        with open('%s/%s_%d.txt' % (d, f, compl)) as fh:
            return fh.read().splitlines()
    lib = dict(allf=rd('all_equations'), uniq=rd('unique_equations'), trees=rd('trees'), aif=rd('aifeyn'))
    lib['matches_raw'] = rd('matches')
    with open('%s/inv_subs_%d.txt' % (d, compl)) as f:
        lib['subs'] = [r for r in csv.reader(f, delimiter=';')]
    return lib


SKIP_TOKENS = ('zoo', 'class', 'nan')


def round_chains(d, compl, nround, n):
    """Per function: the steps recorded round by round (inv_idx/inv_subs round files 0..nround-1), concatenated."""
    chains = [[] for _ in range(n)]
    for r in range(nround):
        try:
            with open('%s/inv_idx_%d_round_%d.txt' % (d, compl, r)) as f:
                idx = [int(t) for t in f.read().split()]
            with open('%s/inv_subs_%d_round_%d.txt' % (d, compl, r)) as f:
                rows = [row for row in csv.reader(f, delimiter=';')]
        except FileNotFoundError:
            return None
        if len(idx) != len(rows):
            return None
        for i, row in zip(idx, rows):
            if 0 <= i < n:
                chains[i] = chains[i] + list(row)
    return chains


def _same_composition(chain_a, chain_b, k, rng):
    """Numerically: do two parsed chains send (a0..a(k-1)) to the same vector?  None if no point could be evaluated."""
    names = ['a%d' % j for j in range(max(k, 1))]
    ok = 0
    for _ in range(12):
        th = {nm: mp.mpf(rng.choice([-1, 1]) * rng.uniform(0.3, 3)) for nm in names}
        ra, rb = apply_chain(chain_a, th), apply_chain(chain_b, th)
        if ra is None or rb is None:
            continue
        ok += 1
        for nm in names:
            if abs(ra[nm] - rb[nm]) > mp.mpf(10) ** -12 * (1 + abs(ra[nm]) + abs(rb[nm])):
                return False
        if ok >= 3:
            break
    return True if ok else None


def check_precheck(d, compl, snap_path, nround, rng, stats=None):
    """Item 6 on the parameter-map file AS THE COMBINING STAGE WROTE IT (snapshot taken by the harness when check_results is
    entered): for every function the combined, pair-cancelled chain must compose to the same map as the concatenation of the
    steps recorded for it in the per-round files - with no exemption, because nothing has been split off yet.  This is C17's
    cancellation clause observed where ESR applies it (the combining loop of duplicate_checker.main), not only through a direct
    call of simplify_inv_subs; a corrupted chain would otherwise be hidden by check_results splitting the function off."""
    stats = stats if stats is not None else {}
    probs = []
    try:
        with open('%s/all_equations_%d.txt' % (d, compl)) as fh:
            allf = fh.read().splitlines()
        with open(snap_path) as fh:
            subs = [r for r in csv.reader(fh, delimiter=';')]
    except FileNotFoundError:
        return probs
    n = len(allf)
    if len(subs) != n:
        return [('precheck-linecount', n, len(subs))]
    rchains = round_chains(d, compl, nround, n)
    if rchains is None:
        return probs
    for i, f in enumerate(allf):
        if not subs[i] and not rchains[i]:
            continue
        try:
            chain = parse_chain(subs[i])
            rc = parse_chain(rchains[i])
        except Exception:
            continue
        if (rc is None) != (chain is None):
            probs.append(('precheck-chain-differs:nan', i, f, subs[i], rchains[i]))
            break
        if rc is None:
            continue
        same = _same_composition(chain, rc, max(nparams(f), 1), rng)
        stats['precheck_chains'] = stats.get('precheck_chains', 0) + 1
        if same is False:
            probs.append(('precheck-chain-differs', i, f, subs[i], rchains[i]))
            break
    return probs


def check_library(d, compl, rng, npts=6, maxdraw=60, stats=None, family=True, nround=None):
    """Items 1-4 of LIB-SOUND.  Returns list of problem tuples."""
    stats = stats if stats is not None else {}
    lib = read_library(d, compl)
    allf, uniq, subs = lib['allf'], lib['uniq'], lib['subs']
    probs = []
    try:
        matches = [int(float(x)) for x in lib['matches_raw']]
    except ValueError:
        return [('bad-matches-file',)]
    n = len(allf)
    lens = (n, len(matches), len(subs), len(lib['trees']), len(lib['aif']))
    if len(set(lens)) != 1:
        return [('linecount',) + lens]
    if len(set(uniq)) != len(uniq):
        seen = set()
        dup = [u for u in uniq if (u in seen) or seen.add(u)]
        probs.append(('dup-unique', dup[:3]))
    for j, u in enumerate(uniq):
        if not any(t in u for t in SKIP_TOKENS) and param_gaps(u):
            probs.append(('unique-param-gap', j, u))
    # item 6: the final map of a function is the composition of what the simplifier recorded round by round
    rchains = round_chains(d, compl, nround, n) if nround else None
    used = set()
    stats.setdefault('functions', 0)
    stats.setdefault('merged', 0)
    stats.setdefault('nan_chains', 0)
    stats.setdefault('mapped', 0)
    stats.setdefault('inconclusive', 0)
    stats.setdefault('points', 0)
    for i, f in enumerate(allf):
        stats['functions'] += 1
        m = matches[i]
        if not (0 <= m < len(uniq)):
            probs.append(('match-range', i, m))
            continue
        used.add(m)
        u = uniq[m]
        if u != f:
            stats['merged'] += 1
        kf, ku = nparams(f), nparams(u)
        try:
            chain = parse_chain(subs[i])
        except Exception as e:
            probs.append(('bad-map-syntax', i, f, subs[i], str(e)[:80]))
            continue
        if rchains is not None and not (u == f and not subs[i]):
            try:
                rc = parse_chain(rchains[i])
            except Exception:
                rc = 'bad'
            if rc != 'bad':
                if (rc is None) != (chain is None):
                    if not (chain == [] and rc is None):      # a blanked row of a split-off function is handled above (u == f)
                        probs.append(('round-files-disagree:nan', i, f, subs[i], rchains[i]))
                elif rc is not None and chain is not None:
                    same = _same_composition(chain, rc, max(kf, ku), rng)
                    stats['round_checked'] = stats.get('round_checked', 0) + 1
                    if same is False:
                        probs.append(('round-files-disagree', i, f, subs[i], rchains[i]))
        if chain is None:
            stats['nan_chains'] += 1
            if not ku < kf:
                probs.append(('nan-without-fewer-params', i, f, u, subs[i]))
            elif family and not any(t in f for t in SKIP_TOKENS) and not any(t in u for t in SKIP_TOKENS):
                if same_family(f, u, rng, stats=stats) is False:
                    probs.append(('not-same-family', i, f, u))
            continue
        if chain:
            stats['mapped'] += 1
        if any(t in f for t in SKIP_TOKENS) or any(t in u for t in SKIP_TOKENS):
            if chain == [] and f == u:
                continue
            stats['inconclusive'] += 1
            continue
        if f == u and not chain:
            continue
        good = 0
        bad = None
        for _ in range(maxdraw):
            th = {'a%d' % j: mp.mpf(rng.choice([-1, 1]) * rng.uniform(0.3, 3)) for j in range(max(kf, ku, 1))}
            x = mp.mpf(rng.uniform(0.3, 3))
            pt = apply_chain(chain, th)
            if pt is None:
                continue
            lhs = ev(f, dict(pt, x=x))
            rhs = ev(u, dict(th, x=x))
            if lhs == 'syntax' or rhs == 'syntax':
                bad = ('syntax', f if lhs == 'syntax' else u)
                break
            if lhs is None or rhs is None:
                continue
            stats['points'] += 1
            if abs(lhs - rhs) <= TOL * (1 + abs(lhs) + abs(rhs)):
                good += 1
            else:
                # ill-conditioned towers (exp of exp ...) amplify the 1e-30 rounding of the map: re-evaluate the
                # same point with more digits; a difference that melts away with precision is numerical noise
                verdict = _recheck(f, u, chain, th, x)
                if verdict == 'equal':
                    good += 1
                    stats['rechecked_equal'] = stats.get('rechecked_equal', 0) + 1
                elif verdict == 'noise':
                    stats['rechecked_noise'] = stats.get('rechecked_noise', 0) + 1
                    continue
                else:
                    bad = (dict((k, float(v)) for k, v in th.items()), float(x), mp.nstr(lhs, 12), mp.nstr(rhs, 12))
                    break
            if good >= npts:
                break
        if bad is not None:
            if bad[0] == 'syntax':
                probs.append(('unparseable', i, bad[1]))
            else:
                probs.append(('map-mismatch', i, f, u, subs[i], bad))
        elif good == 0:
            stats['inconclusive'] += 1
    return probs


def classify(probs):
    """Stable signature of a problem list (kind of the first hard problem + the function string)."""
    hard = [p for p in probs if p[0] != 'inconclusive']
    if not hard:
        return None
    p = hard[0]
    if p[0] in ('map-mismatch', 'nan-without-fewer-params', 'not-same-family', 'round-files-disagree', 'round-files-disagree:nan', 'precheck-chain-differs', 'precheck-chain-differs:nan'):
        return 'lib-unsound:%s:%s' % (p[0], p[2])
    return 'lib-unsound:%s' % p[0]


# ------------------------------------------------------------------------------------------
# item 5: "same family" for unrecoverable maps (unique has strictly fewer parameters)
# ------------------------------------------------------------------------------------------
_np_cache = {}
_family_cache = {}


def _np_ns():
    import numpy as np

    def apow(a, b):
        return np.power(np.abs(a), b)
    return {'pow': apow, 'Abs': np.abs, 'exp': np.exp, 'log': lambda a: np.log(np.abs(a)), 'sqrt': lambda a: np.sqrt(np.abs(a)),
            'sin': np.sin, 'cos': np.cos, 'sign': np.sign, 'inv': lambda a: 1.0 / a, 'square': lambda a: a * a,
            'cube': lambda a: a * a * a, 'sqrt_abs': lambda a: np.sqrt(np.abs(a)), 'log_abs': lambda a: np.log(np.abs(a)),
            'log10_abs': lambda a: np.log10(np.abs(a)), 'tenexp': lambda a: np.power(10.0, a), 'nan': np.nan, 'zoo': np.inf,
            'oo': np.inf, 'E': np.e, 'pi': np.pi, 'mpf': float, '_spow': lambda a, b: np.power(a + 0j, b) if np.any(np.asarray(a) < 0) else np.power(a, b)}


def _np_eval(s, env):
    import numpy as np
    code = _np_cache.get(s)
    if code is None:
        try:
            code = _compile(s)
        except Exception:
            code = False
        _np_cache[s] = code
    if code is False:
        return None
    e = _np_ns()
    e.update(env)
    try:
        with np.errstate(all='ignore'):
            v = eval(code, {'__builtins__': {}}, e)
        v = np.asarray(v)
        if np.iscomplexobj(v):
            if np.any(np.abs(v.imag) > 1e-12 * (1 + np.abs(v.real))):
                return None
            v = v.real
        v = np.broadcast_to(v.astype(float), env['x'].shape).copy()
    except Exception:
        return None
    return v


def same_family(f, u, rng_unused, nsamples=10, stats=None):
    """Forward direction of 'both describe the same family of curves': for sampled parameters of f there are
    parameters of u with u(.;phi) = f(.;theta) on 8 abscissae.  Returns True / False / None (inconclusive).
    A sample is a *hard failure* if neither the candidate values (one- and two-level combinations of theta) nor
    Levenberg-Marquardt from the 40 best starts gets the scaled residual below 1e-3; False needs >= 3 hard failures among
    the valid samples (e.g. a family of all real constants merged into one of non-negative constants fails for about half of
    the samples), True needs every valid sample to succeed."""
    import itertools
    import numpy as np
    from scipy.optimize import least_squares
    key = (f, u)
    if key in _family_cache:
        v = _family_cache[key]
        return v
    # the verdict must be a pure function of the pair (replayable, independent of which worker saw which pair first)
    import hashlib
    import random as _random
    rng = _random.Random(int.from_bytes(hashlib.sha256(repr(key).encode()).digest()[:8], 'big'))
    kf, ku = nparams(f), nparams(u)
    xs = np.array([0.37, 0.61, 0.93, 1.21, 1.58, 1.97, 2.44, 2.89])
    hard = succ = valid = 0
    for _ in range(5 * nsamples):
        if valid >= nsamples:
            break
        th = [rng.choice([-1, 1]) * rng.uniform(0.4, 2.5) for _ in range(kf)]
        y = _np_eval(f, dict({'a%d' % j: th[j] for j in range(kf)}, x=xs))
        if y is None or not np.all(np.isfinite(y)) or np.max(np.abs(y)) > 1e8:
            continue
        valid += 1
        scale = 1.0 + np.abs(y)

        def resid(phi):
            v = _np_eval(u, dict({'a%d' % j: phi[j] for j in range(ku)}, x=xs))
            if v is None or not np.all(np.isfinite(v)):
                return np.full(len(xs), 1e6)
            return (v - y) / scale
        best = np.inf
        if ku == 0:
            best = float(np.max(np.abs(resid([]))))
        else:
            with np.errstate(all='ignore'):
                lvl1 = set()
                for a in list(th) + [1.0, 2.0, 0.5, 3.0, 10.0]:
                    for g in (a, -a, 1 / a, a * a, abs(a) ** 0.5, np.exp(a), np.log(abs(a)), a ** 3, 10.0 ** a, np.log10(abs(a)), abs(a), np.sin(a)):
                        if np.isfinite(g) and abs(g) < 1e6:
                            lvl1.add(round(float(g), 12))
                t1 = [c for c in lvl1]
                core = []
                for a in th:
                    core += [a, -a, 1 / a, abs(a), a * a, np.exp(a), np.log(abs(a)), abs(a) ** 0.5]
                core = [c for c in core if np.isfinite(c)]
                lvl2 = set(t1)
                for a, b in itertools.permutations(core, 2):
                    for g in (a + b, a - b, a * b, a / b if b else np.inf, abs(a) ** b):
                        if np.isfinite(g) and abs(g) < 1e6:
                            lvl2.add(round(float(g), 12))
                if kf >= 3:
                    lvl2.add(round(float(sum(th)), 12))
                    lvl2.add(round(float(np.prod(th)), 12))
            cands = sorted(lvl2)
            if ku == 1:
                starts = [[c] for c in cands]
            else:
                pick = sorted(lvl2, key=lambda c: (c not in lvl1, abs(c)))[:45]
                starts = [list(t) for t in itertools.islice(itertools.product(pick, repeat=ku), 6000)]
                rng.shuffle(starts)
                starts = starts[:1200]
            starts += [[rng.choice([-1, 1]) * 10 ** rng.uniform(-1.5, 1.5) for _ in range(ku)] for _ in range(40)]
            scored = sorted(((float(np.max(np.abs(resid(s_)))), s_) for s_ in starts), key=lambda t: t[0])
            for r0, s_ in scored[:40]:
                best = min(best, r0)
                if best < 1e-9:
                    break
                try:
                    sol = least_squares(resid, s_, method='lm', xtol=1e-14, ftol=1e-14, max_nfev=300)
                    best = min(best, float(np.max(np.abs(sol.fun))))
                except Exception:
                    continue
                if best < 1e-7:
                    break
        if best < 1e-7:
            succ += 1
        elif best > 1e-3:
            hard += 1
    if hard >= 3:
        verdict = False
    elif valid >= 3 and succ == valid:
        verdict = True
    else:
        verdict = None
    _family_cache[key] = verdict
    if stats is not None:
        k = 'family_ok' if verdict else ('family_fail' if verdict is False else 'family_inconclusive')
        stats[k] = stats.get(k, 0) + 1
    return verdict
