"""RANK-MODEL: reference model of the final table of a complexity (C06).

Inputs are the stage's own input files, parsed independently; the model accepts any output that
satisfies the statement - ties are never over-specified."""
import csv
import math


def parse_inputs(lib, out_dir, comp, fnprior='aifeyn_'):
    with open('%s/unique_equations_%d.txt' % (lib, comp)) as f:
        uniq = f.read().splitlines()
    with open('%s/all_equations_%d.txt' % (lib, comp)) as f:
        allf = f.read().splitlines()
    with open('%s/%s%d.txt' % (lib, fnprior, comp)) as f:
        aif = [float(t) for t in f.read().split()]
    rows = []
    with open('%s/codelen_matches_comp%d.dat' % (out_dir, comp)) as f:
        for ln in f:
            if ln.strip():
                rows.append([float(t) for t in ln.split()])
    return uniq, allf, aif, rows


def expected(uniq, allf, aif, rows):
    """unique index -> (min DL, set of variant indices attaining it); uniques with only-NaN or no variants absent."""
    per = {}
    for i, r in enumerate(rows):
        dl = (r[0] + r[1]) + aif[i]
        per.setdefault(int(r[2]), []).append((dl, i))
    exp = {}
    for u in range(len(uniq)):
        v = [(d, i) for d, i in per.get(u, []) if not math.isnan(d)]
        if v:
            m = min(d for d, _ in v)
            exp[u] = (m, {i for d, i in v if d == m})
    return exp


def feq(a, b, rel=1e-12):
    if math.isinf(a) or math.isinf(b):
        return a == b
    return abs(a - b) <= rel * max(1.0, abs(a), abs(b))


def peq(a, b):
    """parameters travel as text with 17 significant digits: equal means equal relative to their own size"""
    if a == b:
        return True
    if math.isinf(a) or math.isinf(b) or a != a or b != b:
        return (a != a and b != b)
    return abs(a - b) <= 1e-13 * max(abs(a), abs(b))


def check_final(final_path, uniq, allf, aif, rows):
    probs = []
    with open(final_path) as f:
        final = [r for r in csv.reader(f, delimiter=';')]
    exp = expected(uniq, allf, aif, rows)
    name_to_var = {}
    for i, n in enumerate(allf):
        name_to_var.setdefault(n, []).append(i)
    got = {}
    prev = -math.inf
    for k, r in enumerate(final):
        try:
            rk, name, dl = int(r[0]), r[1], float(r[2])
        except Exception:
            probs.append(('unparseable-row', k, r[:3]))
            continue
        if rk != k:
            probs.append(('rank-number', k, rk))
        if dl < prev:
            probs.append(('order', k, dl, prev))
        prev = dl
        cands = name_to_var.get(name)
        if not cands:
            probs.append(('unknown-function', k, name))
            continue
        us = {int(rows[i][2]) for i in cands}
        if len(us) != 1:
            probs.append(('ambiguous-name', k, name))
            continue
        u = us.pop()
        if u in got:
            probs.append(('unique-twice', u, name))
            continue
        got[u] = dl
        if u not in exp:
            probs.append(('unexpected-unique', u, name, dl))
            continue
        m, arg = exp[u]
        if not feq(dl, m):
            probs.append(('not-minimum', u, name, dl, m))
            continue
        if math.isfinite(dl):
            nll, cl, af = float(r[4]), float(r[5]), float(r[6])
            params = [float(t) for t in r[7:]]
            ok = False
            for i in arg:
                if name == allf[i] and feq(nll, rows[i][0]) and feq(cl, rows[i][1]) and feq(af, aif[i]) and \
                        len(params) == len(rows[i][3:]) and all(peq(p, q) for p, q in zip(params, rows[i][3:])):
                    ok = True
                    break
            if not ok:
                probs.append(('row-not-a-minimising-variant', u, name, dl))
            if not feq(nll + cl + af, dl, 1e-9):
                probs.append(('sum', k, dl, nll, cl, af))
    missing = sorted(set(exp) - set(got))
    if missing:
        probs.append(('missing-uniques', missing[:5], len(missing)))
    # relative probabilities
    if any(math.isfinite(v[0]) for v in exp.values()) and final and not probs:
        pr = [float(r[3]) for r in final]
        if any((p < 0) or math.isnan(p) for p in pr):
            probs.append(('prel-negative-or-nan',))
        else:
            if abs(sum(pr) - 1) > 1e-9:
                probs.append(('prel-sum', sum(pr)))
            dl0 = float(final[0][2])
            seen, w = [], []
            for r in final:
                nl, dl = float(r[4]), float(r[2])
                if nl in seen:
                    w.append(0.0)
                else:
                    seen.append(nl)
                    w.append(math.exp(-(dl - dl0)) if math.isfinite(dl) else 0.0)
            tot = sum(w)
            if tot > 0:
                for k, (a, b) in enumerate(zip(pr, w)):
                    if abs(a - b / tot) > 1e-9:
                        probs.append(('prel-value', k, a, b / tot))
                        break
    stats = dict(rows=len(final), expected=len(exp), finite=sum(1 for v in exp.values() if math.isfinite(v[0])),
                 ties=len(final) - len({r[2] for r in final}),
                 tie_groups_multi_argmin=sum(1 for v in exp.values() if len(v[1]) > 1))
    return probs, stats
