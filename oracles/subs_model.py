"""SUBS-MODEL: independent parser / composer for substitution chains (C17)."""
import random

import mpmath as mp

from .libsound import NS_MAP, apply_chain, ev, parse_step

TOL = mp.mpf(10) ** -12


def _points(names, seed, n=3):
    rng = random.Random(seed)
    return [{k: mp.mpf(rng.choice([-1, 1]) * rng.uniform(0.4, 2.5)) for k in names} for _ in range(n)]


NAMES = ['a0', 'a1', 'a2', 'a3']


def signature(expr, seed=7):
    """Numeric signature of an expression string over a0..a3 at generic points (None where undefined)."""
    out = []
    for pt in _points(NAMES, seed):
        v = ev(expr, pt, NS_MAP)
        if v == 'syntax':
            return ('syntax', expr)
        out.append(None if v is None else v)
    return tuple(out)


def sig_equal(s1, s2):
    if s1 is None or s2 is None:
        return s1 == s2
    if s1 and s1[0] == 'syntax' or s2 and s2[0] == 'syntax':
        return False
    if len(s1) != len(s2):
        return False
    for a, b in zip(s1, s2):
        if (a is None) != (b is None):
            return False
        if a is not None and abs(a - b) > TOL * (1 + abs(a) + abs(b)):
            return False
    return True


def step_equal(written, loaded):
    """written: step string from the file; loaded: 'nan' | dict(str->str) | str(dict)."""
    w = parse_step(written)
    if w is None:
        return loaded == 'nan'
    if loaded == 'nan':
        return False
    l = loaded if isinstance(loaded, dict) else parse_step(loaded)
    if l is None or len(l) != len(w):
        return False
    wl = [(signature(k), signature(v)) for k, v in w.items()]
    ll = [(signature(k), signature(v)) for k, v in l.items()]
    used = set()
    for ks, vs in wl:
        hit = None
        for j, (ks2, vs2) in enumerate(ll):
            if j not in used and sig_equal(ks, ks2) and sig_equal(vs, vs2):
                hit = j
                break
        if hit is None:
            return False
        used.add(hit)
    return True


def check_loaded(rows, loaded):
    """rows: list of lists of step strings as written; loaded: what a rank got.  Returns problems."""
    probs = []
    if loaded is None:
        return [('none-result',)]
    if len(loaded) != len(rows):
        return [('row-count', len(loaded), len(rows))]
    for i, (w, l) in enumerate(zip(rows, loaded)):
        if len(w) != len(l):
            probs.append(('chain-length', i, w, l))
            continue
        for j, (ws, ls) in enumerate(zip(w, l)):
            try:
                ok = step_equal(ws, ls)
            except Exception as e:
                probs.append(('unparseable', i, ws, str(ls)[:80], str(e)[:60]))
                break
            if not ok:
                probs.append(('step-differs', i, j, ws, str(ls)[:120]))
                break
        if len(probs) > 5:
            break
    return probs


def compose_equal(chain_a, chain_b, k):
    """Do two chains (lists of step strings, no 'nan') compose to the same map on a0..a(k-1)?"""
    names = NAMES[:max(k, 1)]
    pa = [parse_step(s) for s in chain_a]
    pb = [parse_step(s) for s in chain_b]
    n_ok = 0
    for pt in _points(names, 11, n=4):
        ra = apply_chain(pa, pt)
        rb = apply_chain(pb, pt)
        if ra is None or rb is None:
            if (ra is None) != (rb is None):
                return False
            continue
        n_ok += 1
        for nm in names:
            if abs(ra[nm] - rb[nm]) > TOL * (1 + abs(ra[nm]) + abs(rb[nm])):
                return False
    return True


def check_applied(rows, applied, k):
    """use_sympy=True: the loaded dict, substituted into the vector (a0..a(k-1)) of real symbols as
    convert_params does, must send every bare-parameter key to the written value and leave the others alone."""
    probs = []
    names = NAMES[:max(k, 1)]
    for i, (w, ap) in enumerate(zip(rows, applied)):
        for j, (ws, a) in enumerate(zip(w, ap)):
            d = parse_step(ws)
            if d is None:
                continue
            if a is None or len(a) != len(names):
                probs.append(('applied-missing', i, j, ws))
                continue
            for idx, nm in enumerate(names):
                want = d.get(nm, nm)
                if not sig_equal(signature(want), signature(a[idx])):
                    probs.append(('applied-map-differs', i, j, ws, nm, a[idx]))
                    break
            if len(probs) > 3:
                return probs
    return probs
