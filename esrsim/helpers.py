"""Helper zygotes: long-lived siblings of a worker, started under *other* PYTHONHASHSEED values, that fork
rank processes on request.  With them one simulated world can consist of ranks whose interpreters use
different string-hash secrets - which is what `mpirun` gives by default (fault kind F6b).

Protocol over a Unix socket pair: request = 8-byte length + pickle(dict) followed by one message carrying the
two pipe fds of the rank; reply = 8-byte pid of the forked rank process."""
import gc
import os
import pickle
import signal
import socket
import struct
import subprocess
import sys

from .common import PY, VERIF

_HELPERS = {}     # hashseed -> (Popen, socket)


def _recvn(sock, n):
    out = bytearray()
    while len(out) < n:
        c = sock.recv(n - len(out))
        if not c:
            raise EOFError
        out += c
    return bytes(out)


def get_helper(hashseed):
    ent = _HELPERS.get(hashseed)
    if ent is not None and ent[0].poll() is None:
        return ent[1]
    a, b = socket.socketpair(socket.AF_UNIX, socket.SOCK_STREAM)
    env = dict(os.environ)
    env['PYTHONHASHSEED'] = str(hashseed)
    env['ESRSIM_HELPER_FD'] = str(b.fileno())
    proc = subprocess.Popen([PY, os.path.join(VERIF, 'esrsim', 'worker_main.py'), '--helper'], env=env,
                            pass_fds=[b.fileno()], stdin=subprocess.DEVNULL, cwd=VERIF)
    b.close()
    msg = _recvn(a, 5)
    assert msg == b'READY', msg
    _HELPERS[hashseed] = (proc, a)
    return a


def remote_fork(hashseed, rank, size, rfd, wfd, spec, scratch, pkgdir):
    """Ask the helper with that hash seed to fork rank `rank`; returns its pid."""
    sock = get_helper(hashseed)
    payload = pickle.dumps(dict(rank=rank, size=size, spec=spec, scratch=scratch, pkgdir=pkgdir), protocol=pickle.HIGHEST_PROTOCOL)
    sock.sendall(struct.pack('<Q', len(payload)) + payload)
    socket.send_fds(sock, [b'F'], [rfd, wfd])
    pid, = struct.unpack('<Q', _recvn(sock, 8))
    return pid


def helper_main():
    """Entry point of a helper zygote (worker_main.py --helper)."""
    from . import world
    sock = socket.socket(fileno=int(os.environ['ESRSIM_HELPER_FD']))
    signal.signal(signal.SIGCHLD, signal.SIG_IGN)     # forked ranks are reaped automatically
    gc.collect()
    gc.freeze()
    sock.sendall(b'READY')
    while True:
        try:
            n, = struct.unpack('<Q', _recvn(sock, 8))
            req = pickle.loads(_recvn(sock, n))
            _, fds, _, _ = socket.recv_fds(sock, 1, 2)
        except (EOFError, ConnectionError, OSError):
            break
        rfd, wfd = fds
        sys.stdout.flush()
        sys.stderr.flush()
        pid = os.fork()
        if pid == 0:
            try:
                sock.close()
                signal.signal(signal.SIGCHLD, signal.SIG_DFL)
                world.child_main(req['rank'], req['size'], rfd, wfd, req['spec'], req['scratch'], req['pkgdir'])
            finally:
                os._exit(97)
        os.close(rfd)
        os.close(wfd)
        sock.sendall(struct.pack('<Q', pid))
    os._exit(0)
