"""Pool of zygote workers (subprocesses with a pinned PYTHONHASHSEED), one job in flight each."""
import glob
import os
import selectors
import shutil
import signal
import subprocess
import time

from .common import PY, VERIF, pin_env, send, recv, scratch_root


class Worker:
    def __init__(self, wid, hashseed, warm):
        env = pin_env()
        env['PYTHONHASHSEED'] = str(hashseed)
        env['ESRSIM_WID'] = str(wid)
        env['ESRSIM_WARM'] = '1' if warm else '0'
        env['PYTHONPATH'] = VERIF
        self.wid = wid
        self.proc = subprocess.Popen([PY, os.path.join(VERIF, 'esrsim', 'worker_main.py')],
                                     stdin=subprocess.PIPE, stdout=subprocess.PIPE, env=env,
                                     start_new_session=True, cwd=VERIF)
        self.rfd = self.proc.stdout.fileno()
        self.wfd = self.proc.stdin.fileno()
        self.job = None
        self.t0 = None
        self.ready = False

    def kill(self):
        try:
            os.killpg(self.proc.pid, signal.SIGKILL)
        except Exception:
            pass
        try:
            self.proc.kill()
        except Exception:
            pass
        try:
            self.proc.wait(timeout=10)
        except Exception:
            pass
        for f in (self.proc.stdin, self.proc.stdout):
            try:
                f.close()
            except Exception:
                pass


class Pool:
    def __init__(self, n=None, hashseed=0, warm=True):
        self.n = n or min(16, os.cpu_count() or 1)
        self.hashseed = hashseed
        self.warm = warm
        self.workers = [Worker(i, hashseed, warm) for i in range(self.n)]
        self.sel = selectors.DefaultSelector()
        for w in self.workers:
            self.sel.register(w.rfd, selectors.EVENT_READ, w)
        self.stats = dict(jobs=0, ok=0, err=0, timeout=0, died=0, busy_s=0.0)
        # wait for readiness
        pending = set(self.workers)
        deadline = time.time() + 180
        while pending:
            for key, _ in self.sel.select(timeout=1.0):
                w = key.data
                if w in pending:
                    msg = recv(w.rfd)
                    assert msg[0] == 'ready', msg
                    w.ready = True
                    pending.discard(w)
            if time.time() > deadline:
                self.close()
                raise RuntimeError('workers did not start')

    def _respawn(self, w):
        self.sel.unregister(w.rfd)
        w.kill()
        self._cleanup_scratch(w)
        nw = Worker(w.wid, self.hashseed, self.warm)
        self.workers[self.workers.index(w)] = nw
        self.sel.register(nw.rfd, selectors.EVENT_READ, nw)
        # readiness message is consumed lazily in imap
        return nw

    def _cleanup_scratch(self, w):
        for d in glob.glob('%s/esrsim-%d-%d-*' % (scratch_root(), os.getpid(), w.wid)):
            shutil.rmtree(d, ignore_errors=True)

    def imap(self, jobs, timeout=600, deadline=None):
        """Yield (job, outcome) as jobs finish.  outcome = ('ok', result, wall) | ('err', tb, wall)
        | ('timeout', None, wall) | ('died', rc, wall).  Stops pulling new jobs after `deadline`."""
        it = iter(jobs)
        exhausted = False
        inflight = 0
        while True:
            # hand out work
            for w in self.workers:
                if exhausted:
                    break
                if w.job is None and w.ready:
                    if deadline is not None and time.time() > deadline:
                        exhausted = True
                        break
                    try:
                        job = next(it)
                    except StopIteration:
                        exhausted = True
                        break
                    w.job = job
                    w.t0 = time.time()
                    send(w.wfd, job)
                    inflight += 1
                    self.stats['jobs'] += 1
            if inflight == 0 and exhausted:
                return
            events = self.sel.select(timeout=1.0)
            now = time.time()
            for key, _ in events:
                w = key.data
                try:
                    msg = recv(w.rfd)
                except EOFError:
                    rc = w.proc.poll()
                    job = w.job
                    wall = now - (w.t0 or now)
                    self._respawn(w)
                    if job is not None:
                        inflight -= 1
                        self.stats['died'] += 1
                        yield job, ('died', rc, wall)
                    continue
                if msg[0] == 'ready':
                    w.ready = True
                    continue
                job = w.job
                w.job = None
                inflight -= 1
                self.stats['busy_s'] += msg[2]
                self.stats['ok' if msg[0] == 'ok' else 'err'] += 1
                yield job, msg
            for w in list(self.workers):
                if w.job is not None and now - w.t0 > (w.job.get('timeout') or timeout):
                    job = w.job
                    wall = now - w.t0
                    self._respawn(w)
                    inflight -= 1
                    self.stats['timeout'] += 1
                    yield job, ('timeout', None, wall)

    def run(self, jobs, timeout=600, deadline=None):
        return list(self.imap(jobs, timeout=timeout, deadline=deadline))

    def close(self):
        for w in self.workers:
            try:
                if w.job is None and w.ready:
                    send(w.wfd, None)
            except Exception:
                pass
        time.sleep(0.05)
        for w in self.workers:
            w.kill()
            self._cleanup_scratch(w)
        try:
            self.sel.close()
        except Exception:
            pass

    def __enter__(self):
        return self

    def __exit__(self, *a):
        self.close()
