"""Zygote worker: imports the heavy third-party libraries once (never `esr`), optionally runs a
deterministic warm-up, freezes the heap and then serves jobs.  Each job typically runs one or
more worlds, whose rank processes are forked from this process."""
import gc
import importlib
import os
import sys
import time
import traceback

VERIF = os.path.dirname(os.path.dirname(os.path.abspath(__file__)))
if VERIF not in sys.path:
    sys.path.insert(0, VERIF)
sys.dont_write_bytecode = True

from esrsim.common import send, recv, scratch_root  # noqa: E402


def warmup():
    import numpy as np
    import sympy
    x = sympy.Symbol('x', positive=True)
    a = sympy.symbols('a0 a1 a2', real=True)
    e = sympy.sympify('a0*x**2 + a1/x + Abs(a2)**x + exp(a0)*log(Abs(x))',
                      locals={'x': x, 'a0': a[0], 'a1': a[1], 'a2': a[2], 'Abs': sympy.Abs})
    e.expand()
    sympy.factor(e)
    sympy.powsimp(e)
    str(e)
    e.subs(a[0], -a[0])
    e.equals(e + 0)
    f = sympy.lambdify([x] + list(a), e, modules=['numpy'])
    f(np.linspace(1, 2, 3), 1., 2., 3.)


def main():
    warm = os.environ.get('ESRSIM_WARM', '1') == '1'
    helper = '--helper' in sys.argv
    if not helper:
        rfd = os.dup(0)
        wfd = os.dup(1)
        os.dup2(2, 1)
        devnull = os.open(os.devnull, os.O_RDONLY)
        os.dup2(devnull, 0)
    import csv, pprint, itertools, ast  # noqa: F401,E401
    import numpy, sympy, scipy.optimize, scipy.integrate, scipy.stats, pandas, prettytable  # noqa: F401,E401
    import psutil, pympler.asizeof, numdifftools, astropy.constants, astropy.units, mpmath  # noqa: F401,E401
    try:
        import matplotlib
        matplotlib.use('Agg')
        import matplotlib.pyplot, matplotlib.cm  # noqa: F401,E401
    except Exception:
        pass
    if warm:
        warmup()
    if helper:
        from esrsim import helpers
        helpers.helper_main()
        return
    gc.collect()
    gc.freeze()
    wid = int(os.environ.get('ESRSIM_WID', '0'))
    base = '%s/esrsim-%d-%d' % (scratch_root(), os.getppid(), wid)
    send(wfd, ('ready', os.getpid()))
    njob = 0
    while True:
        try:
            job = recv(rfd)
        except EOFError:
            break
        if job is None:
            break
        njob += 1
        scratch = '%s-%d' % (base, njob)
        t0 = time.time()
        try:
            modname, fname = job['fn'].split(':')
            fn = getattr(importlib.import_module(modname), fname)
            res = fn(job.get('args') or {}, scratch)
            out = ('ok', res, time.time() - t0)
        except BaseException:
            out = ('err', traceback.format_exc(), time.time() - t0)
        finally:
            if os.path.isdir(scratch) and not os.environ.get('ESRSIM_KEEP'):
                import shutil
                shutil.rmtree(scratch, ignore_errors=True)
        send(wfd, out)
    os._exit(0)


if __name__ == '__main__':
    main()
