"""Per-world package directory: real dirs, symlinks to the *current* files of /repo/esr.

ESR locates its library and output directories relative to generator.__file__ /
simplifier.__file__; with the farm first on sys.path those land in scratch and /repo is
never written.  `canary` replaces single files by patched copies (sensitivity self-tests
only; never touches /repo).
"""
import os

from .common import REPO

SKIP_TOP = {'__pycache__', 'function_library'}
SKIP_SUB = {'__pycache__', 'output'}


def make_farm(scratch, canary=None, repo=None):
    repo = repo or REPO
    canary = canary or {}
    pkg = scratch + '/pkg/esr'
    if os.path.isdir(pkg):
        return scratch + '/pkg'
    os.makedirs(pkg)
    src = repo + '/esr'
    for name in sorted(os.listdir(src)):
        p = src + '/' + name
        if name in SKIP_TOP:
            continue
        if os.path.isdir(p) and name != 'data':
            os.mkdir(pkg + '/' + name)
            for f in sorted(os.listdir(p)):
                if f in SKIP_SUB:
                    continue
                rel = name + '/' + f
                if rel in canary:
                    text = open(p + '/' + f).read()
                    for old, new in canary[rel]:
                        if text.count(old) != 1:
                            raise RuntimeError('canary: %r occurs %d times in %s' % (old, text.count(old), rel))
                        text = text.replace(old, new)
                    with open(pkg + '/' + rel, 'w') as fh:
                        fh.write(text)
                else:
                    os.symlink(p + '/' + f, pkg + '/' + rel)
        else:
            os.symlink(p, pkg + '/' + name)
    return scratch + '/pkg'


def libdir(scratch, runname=None, compl=None):
    d = scratch + '/pkg/esr/function_library'
    if runname is not None:
        d += '/' + runname
        if compl is not None:
            d += '/compl_%i' % compl
    return d
