"""One simulated `mpirun -n P python script.py`: controller + P baton-passing rank processes.

The controller owns every choice (who runs next, how each collective completes, whether and
where a timer fires) and draws all of them from one random.Random(seed).  Exactly one rank
process is runnable at any instant; a rank runs until its next seam event (MPI collective,
file-system operation under scratch, exit), reports it over a pipe and blocks for the reply.
"""
import hashlib
import os
import pickle
import random
import signal
import sys
import traceback
import types

from . import ticker
from .common import send, recv
from .farm import make_farm

_ALRM = {signal.SIGALRM}
FS_EVENTS = ('open', 'os.mkdir', 'os.remove', 'os.rename', 'os.rmdir', 'os.listdir', 'os.scandir',
             'os.system', 'subprocess.Popen', 'os.truncate', 'os.utime', 'shutil.rmtree', 'os.symlink')


# ----------------------------------------------------------------------------------------
# rank side
# ----------------------------------------------------------------------------------------
class FakeComm:
    """The subset of mpi4py.MPI.Comm that ESR uses, forwarded to the controller.

    Lowercase-API semantics: objects are pickled; every receiver gets its own unpickled copy.
    Whether the root of a bcast gets its own object back or a copy is a per-world coin."""

    def __init__(self, rank, size, rfd, wfd, root_copy):
        self.rank, self.size, self.rfd, self.wfd = rank, size, rfd, wfd
        self.root_copy = root_copy
        self.ncoll = 0

    def Get_rank(self):
        return self.rank

    def Get_size(self):
        return self.size

    def _call(self, op, root, payload):
        ticker.CLOCK.on_mpi()
        self.ncoll += 1
        signal.pthread_sigmask(signal.SIG_BLOCK, _ALRM)      # a real SIGALRM must not tear the seam protocol
        try:
            send(self.wfd, ('mpi', op, root, payload))
            return recv(self.rfd)
        finally:
            signal.pthread_sigmask(signal.SIG_UNBLOCK, _ALRM)

    @staticmethod
    def _dumps(obj):
        return pickle.dumps(obj, protocol=pickle.HIGHEST_PROTOCOL)

    def bcast(self, obj=None, root=0):
        if self.rank == root:
            b = self._dumps(obj)
            self._call('bcast', root, b)
            return pickle.loads(b) if self.root_copy else obj
        return pickle.loads(self._call('bcast', root, None))

    def gather(self, obj, root=0):
        r = self._call('gather', root, self._dumps(obj))
        if self.rank == root:
            return [pickle.loads(b) for b in r]
        return None

    def scatter(self, obj=None, root=0):
        if self.rank == root:
            obj = list(obj)
            if len(obj) != self.size:
                raise ValueError('expecting %d items, got %d' % (self.size, len(obj)))
            payload = [self._dumps(o) for o in obj]
        else:
            payload = None
        return pickle.loads(self._call('scatter', root, payload))

    def Barrier(self):
        self._call('barrier', 0, None)

    barrier = Barrier

    # Collectives ESR does not use today, composed from the four above so that a harmless refactoring towards them does
    # not make the fake fabric the failing party.
    def allgather(self, obj):
        return self.bcast(self.gather(obj, root=0), root=0)

    def reduce(self, obj, op=None, root=0):
        vals = self.gather(obj, root=root)
        if self.rank != root:
            return None
        op = op or _SUM
        out = vals[0]
        for v in vals[1:]:
            out = op(out, v)
        return out

    def allreduce(self, obj, op=None):
        return self.bcast(self.reduce(obj, op=op, root=0), root=0)

    def Abort(self, errorcode=1):
        raise SystemExit('MPI_Abort(%r)' % (errorcode,))

    def fs(self, what):
        signal.pthread_sigmask(signal.SIG_BLOCK, _ALRM)
        try:
            send(self.wfd, ('fs',) + tuple(what))
            recv(self.rfd)
        finally:
            signal.pthread_sigmask(signal.SIG_UNBLOCK, _ALRM)


def _SUM(a, b):
    return a + b


def _install_fake_mpi(comm):
    m = types.ModuleType('mpi4py')
    M = types.ModuleType('mpi4py.MPI')
    M.COMM_WORLD = comm
    M.SUM, M.MAX, M.MIN = _SUM, max, min
    M.Wtime = lambda: 0.0
    M.Comm = FakeComm
    m.MPI = M
    sys.modules['mpi4py'] = m
    sys.modules['mpi4py.MPI'] = M


SPLIT_OPEN = os.environ.get('ESRSIM_SPLIT_OPEN', '1') == '1'


def _install_fs_seam(comm, scratch, state):
    pkg_src = (scratch + '/pkg/esr/generation/', scratch + '/pkg/esr/fitting/', scratch + '/pkg/esr/plotting/')
    ls = len(scratch)

    def interesting(p):
        if isinstance(p, bytes):
            try:
                p = p.decode()
            except Exception:
                return None
        if not isinstance(p, str) or not p.startswith(scratch):
            return None
        if p.endswith('.py') or p.endswith('.out') or p.endswith('.pyc'):
            return None
        if p.startswith(pkg_src) and '/output' not in p:
            # the fitting/ dir itself (like_dir of in-package likelihoods) is interesting, sources are not
            if p.rstrip('/') not in (scratch + '/pkg/esr/fitting',):
                return None
        return p[ls:]

    def hook(event, args):
        if not state['on'] or event not in FS_EVENTS:
            return
        a0 = args[0] if args else None
        if event in ('os.system', 'subprocess.Popen'):
            if event == 'subprocess.Popen':
                a0 = ' '.join(map(str, args[1])) if len(args) > 1 and args[1] else str(a0)
            if isinstance(a0, bytes):
                a0 = a0.decode()
            comm.fs((event, str(a0).replace(scratch, '$S')[:400], None))
            return
        rel = interesting(a0)
        if rel is not None:
            mode = args[1] if event == 'open' and len(args) > 1 else None
            comm.fs((event, rel, mode))
            if SPLIT_OPEN and event == 'open' and isinstance(mode, str) and 'w' in mode:
                # opening for writing truncates at once, the data arrive later: make that window a pre-emption point of its own.
                # The truncation is performed here (the real open repeats it, idempotently) and the rank yields once more, so
                # another rank may be scheduled while the shared file is empty - what a reader meets in a real run when it is
                # not separated from the writer by a barrier.
                state['on'] = False
                try:
                    fd = os.open(a0 if isinstance(a0, (str, bytes)) else str(a0), os.O_WRONLY | os.O_CREAT | os.O_TRUNC, 0o666)
                    os.close(fd)
                    done = True
                except OSError:
                    done = False
                finally:
                    state['on'] = True
                if done:
                    comm.fs(('truncated', rel, mode))

    sys.addaudithook(hook)
    import os.path as osp
    import genericpath
    real = dict(isdir=osp.isdir, exists=osp.exists, isfile=osp.isfile)

    def wrap(name):
        fn = real[name]

        def w(p):
            if state['on']:
                rel = interesting(p)
                if rel is not None:
                    comm.fs((name, rel, None))
            return fn(p)
        w.__name__ = name
        return w
    for name in real:
        setattr(osp, name, wrap(name))


# ----------------------------------------------------------------------------------------
# reach probe (off unless ESRSIM_REACH_DIR is set): which source lines of esr/ were executed
# ----------------------------------------------------------------------------------------
_REACH = {'hits': set(), 'tool': 4}


def _reach_start():
    """Records every (file, line) of the farm's esr package once, via sys.monitoring LINE events that disable
    themselves after the first hit - no PRNG draw, no clock read, no influence on scheduling."""
    d = os.environ.get('ESRSIM_REACH_DIR')
    if not d or not hasattr(sys, 'monitoring'):
        return
    mon = sys.monitoring
    hits = _REACH['hits']

    def on_line(code, line):
        fn = code.co_filename
        k = fn.find('/pkg/esr/')
        if k >= 0:
            hits.add((fn[k + 5:], line))
        return mon.DISABLE
    try:
        mon.use_tool_id(_REACH['tool'], 'esrsim-reach')
        mon.register_callback(_REACH['tool'], mon.events.LINE, on_line)
        mon.set_events(_REACH['tool'], mon.events.LINE)
    except Exception:
        pass


def _reach_dump(rank):
    d = os.environ.get('ESRSIM_REACH_DIR')
    if not d or not _REACH['hits']:
        return
    try:
        os.makedirs(d, exist_ok=True)
        with open('%s/%d-%d.txt' % (d, os.getpid(), rank), 'w') as f:
            for fn, ln in sorted(_REACH['hits']):
                f.write('%s:%d\n' % (fn, ln))
    except Exception:
        pass


def child_main(rank, size, rfd, wfd, spec, scratch, pkgdir):
    status, tb, exc_info = 'ok', None, None
    report = {}
    state = {'on': False}
    try:
        comm = FakeComm(rank, size, rfd, wfd, bool(spec.get('root_copy', False)))
        _install_fake_mpi(comm)
        for k in [k for k in sys.modules if k == 'esr' or k.startswith('esr.')]:
            del sys.modules[k]
        sys.path.insert(0, pkgdir)
        sys.dont_write_bytecode = True
        ticker.install(spec.get('tick_modules') or [])
        _reach_start()
        plan = (spec.get('plan') or {})
        plan = plan.get(rank, plan.get(str(rank), {})) or {}
        ticker.CLOCK.plan = {(k if k == '*' else int(k)): tuple(v) for k, v in plan.items()}
        ticker.CLOCK.record = bool(spec.get('profile'))
        ticker.CLOCK.count_calls = bool(spec.get('profile_calls'))
        recv(rfd)  # first baton
        os.chdir(scratch)      # every rank starts in the run's scratch directory (relative data_dir arguments resolve there)
        logf = open('%s/rank%d.out' % (scratch, rank), 'a')
        sys.stdout.flush()
        os.dup2(logf.fileno(), 1)
        os.dup2(logf.fileno(), 2)
        sys.stdout = logf
        sys.stderr = logf
        _install_fs_seam(comm, scratch, state)
        state['on'] = True
        import numpy as np
        np.random.seed((int(spec.get('npseed', 0)) * 1000 + rank) % (2 ** 32))
        # sympy's numerical equality tests (.equals) draw test points from its own generator, and some libraries use
        # Python's: both are seeded from OS entropy per process - a source of nondeterminism the simulator must own
        import random as _random
        _random.seed(int(spec.get('npseed', 0)) * 1000 + rank + 17)
        try:
            import sympy.core.random as _scr
            _scr.seed(int(spec.get('npseed', 0)) * 1000 + rank + 29)
        except Exception:
            pass
        from . import ops
        ops.run_program(spec['program'], rank, size, scratch, report, comm, state, spec.get('op_plans'))
    except BaseException as e:   # noqa: B902 - SystemExit/KeyboardInterrupt from ESR are failures too
        status = 'exc'
        tb = traceback.format_exc()
        frames = traceback.extract_tb(e.__traceback__)
        esr_frames = [f for f in frames if '/pkg/esr/' in f.filename or '/esr/' in f.filename and 'site-packages' not in f.filename]
        inner = esr_frames[-1] if esr_frames else (frames[-1] if frames else None)
        exc_info = dict(type=type(e).__name__, msg=str(e)[:300],
                        func=inner.name if inner else None, line=inner.lineno if inner else None,
                        file=os.path.basename(inner.filename) if inner else None,
                        text=(inner.line or '').strip() if inner else None)
    state['on'] = False
    sys.settrace(None)
    _reach_dump(rank)
    try:
        sys.stdout.flush()
    except Exception:
        pass
    try:
        send(wfd, ('exit', status, dict(tb=tb, exc=exc_info, clock=ticker.CLOCK.report(), out=report)))
    except BaseException:
        pass
    os._exit(0)


# ----------------------------------------------------------------------------------------
# scheduler policies
# ----------------------------------------------------------------------------------------
class Policy:
    def __init__(self, conf, rng, P):
        self.kind = conf.get('kind', 'uniform')
        self.rng = rng
        self.P = P
        self.step = 0
        if self.kind == 'pct':
            self.prio = list(range(P))
            rng.shuffle(self.prio)                       # prio[r] larger = runs first
            horizon = int(conf.get('horizon', 2000))
            self.changes = sorted(rng.randrange(horizon) for _ in range(int(conf.get('d', 2))))
            self.low = -1
        elif self.kind == 'rr':
            self.ptr = 0
            self.stalled = None
            self.stall_left = 0
            self.p_stall = float(conf.get('p_stall', 0.02))
            self.max_stall = int(conf.get('max_stall', 60))

    def choose(self, ok):
        self.step += 1
        k = self.kind
        if k == 'lowest' or len(ok) == 1:
            if k == 'uniform' and len(ok) == 1:
                pass
            return ok[0]
        if k == 'uniform':
            return self.rng.choice(ok)
        if k == 'pct':
            while self.changes and self.changes[0] <= self.step:
                self.changes.pop(0)
                top = max(ok, key=lambda r: self.prio[r])
                self.prio[top] = self.low
                self.low -= 1
            return max(ok, key=lambda r: self.prio[r])
        if k == 'rr':
            if self.stall_left > 0:
                self.stall_left -= 1
            elif self.rng.random() < self.p_stall:
                self.stalled = self.rng.randrange(self.P)
                self.stall_left = self.rng.randint(1, self.max_stall)
            cand = [r for r in ok if not (self.stall_left > 0 and r == self.stalled)] or ok
            for i in range(self.P):
                r = (self.ptr + i) % self.P
                if r in cand:
                    self.ptr = (r + 1) % self.P
                    return r
            return cand[0]
        raise ValueError('unknown policy ' + k)


# ----------------------------------------------------------------------------------------
# controller
# ----------------------------------------------------------------------------------------
def _can_complete(c, r, P):
    op, root, n = c['op'], c['root'], len(c['entered'])
    if op == 'barrier':
        return n == P
    if op in ('bcast', 'scatter'):
        return (c['eager'] or n == P) if r == root else (root in c['entered'])
    if op == 'gather':
        return n == P if r == root else (c['eager'] or n == P)
    raise ValueError(op)


def _result(c, r, P):
    op, root = c['op'], c['root']
    if op == 'barrier':
        return None
    if op == 'bcast':
        return None if r == root else c['entered'][root]
    if op == 'scatter':
        return c['entered'][root][r]
    if op == 'gather':
        return [c['entered'][i] for i in range(P)] if r == root else None


def run_world(spec, scratch):
    """Run one world.  `spec` is plain data (see DESIGN / checks); returns a plain-data result."""
    P = int(spec['P'])
    rng = random.Random(int(spec.get('seed', 0)))
    pkgdir = make_farm(scratch, spec.get('canary'), spec.get('repo'))
    script = spec.get('script')
    strict = bool(script and script.get('strict'))
    s_choices = None
    if script:
        ch = script.get('choices') or []
        s_choices = unrle(ch) if ch and isinstance(ch[0], (list, tuple)) else list(ch)
    s_coins = list(script['coins']) if script and script.get('coins') is not None else None
    eager_prob = float(spec.get('eager', 0.5))
    policy = Policy(spec.get('policy') or {'kind': 'uniform'}, rng, P)
    max_steps = int(spec.get('max_steps', 3_000_000))
    keep_trace = bool(spec.get('trace', False))

    sys.stdout.flush()
    sys.stderr.flush()
    rank_hs = spec.get('rank_hashseeds')
    kids = []
    for r in range(P):
        c2p_r, c2p_w = os.pipe()
        p2c_r, p2c_w = os.pipe()
        hs_r = rank_hs[r] if rank_hs else None
        if hs_r is not None and str(hs_r) != os.environ.get('PYTHONHASHSEED', '0'):
            # this rank's interpreter uses another string-hash secret: forked by a helper zygote
            from . import helpers
            pid = helpers.remote_fork(int(hs_r), r, P, p2c_r, c2p_w, spec, scratch, pkgdir)
            remote = True
        else:
            pid = os.fork()
            remote = False
        if pid == 0:
            try:
                os.close(c2p_r)
                os.close(p2c_w)
                for k in kids:
                    os.close(k['r'])
                    os.close(k['w'])
                child_main(r, P, p2c_r, c2p_w, spec, scratch, pkgdir)
            finally:
                os._exit(97)
        os.close(c2p_w)
        os.close(p2c_r)
        kids.append(dict(pid=pid, r=c2p_r, w=p2c_w, state='ready', ncoll=0, pending=None,
                         status=None, info=None, nev=0, remote=remote))
    colls = {}
    log = hashlib.sha256()
    choices, coins, trace = [], [], []
    touched = {}          # object -> list of ranks in touch order (for the reduced digest)
    violation = None
    steps = 0
    diverged = None
    nfs = nmpi = 0
    try:
        while True:
            live = [r for r, k in enumerate(kids) if k['state'] != 'exited']
            if not live:
                break
            ok = [r for r in live if kids[r]['state'] == 'ready' or
                  (kids[r]['state'] == 'coll' and _can_complete(colls[kids[r]['pending']], r, P))]
            if not ok:
                if violation is None:
                    blocked = {r: (kids[r]['pending'], colls[kids[r]['pending']]['op']) for r in live}
                    violation = dict(cls='deadlock', sig='deadlock:' + ','.join(sorted({v[1] for v in blocked.values()})),
                                     detail=dict(blocked={str(r): list(v) for r, v in blocked.items()},
                                                 exited=[r for r, k in enumerate(kids) if k['state'] == 'exited']))
                break
            if steps >= max_steps:
                violation = dict(cls='step-cap', sig='step-cap', detail=dict(steps=steps))
                break
            r = None
            if s_choices is not None and steps < len(s_choices):
                want = s_choices[steps]
                if want in ok:
                    r = want
                elif strict:
                    diverged = dict(step=steps, want=want, runnable=ok)
                    break
            elif s_choices is not None and strict and steps >= len(s_choices):
                diverged = dict(step=steps, want=None, runnable=ok, why='script ran dry')
                break
            if r is None:
                r = policy.choose(ok)
            choices.append(r)
            k = kids[r]
            steps += 1
            if k['state'] == 'coll':
                c = colls[k['pending']]
                res = _result(c, r, P)
                c['left'] += 1
                if c['left'] == P:       # everybody has completed it: payloads are no longer needed
                    c['entered'] = dict.fromkeys(c['entered'])
            else:
                res = None
            send(k['w'], res)
            try:
                msg = recv(k['r'])
            except EOFError:
                k['state'] = 'exited'
                k['status'] = 'died'
                violation = violation or dict(cls='rank-died', sig='rank-died', detail=dict(rank=r))
                ev = (r, 'died')
                log.update(repr(ev).encode())
                if keep_trace:
                    trace.append(ev)
                continue
            if msg[0] == 'mpi':
                _, op, root, payload = msg
                nmpi += 1
                idx = k['ncoll']
                k['ncoll'] += 1
                c = colls.get(idx)
                if c is None:
                    if s_coins is not None and len(coins) < len(s_coins):
                        eg = bool(s_coins[len(coins)])
                    else:
                        eg = rng.random() < eager_prob
                    coins.append(int(eg))
                    c = colls[idx] = dict(op=op, root=root, entered={}, eager=eg, left=0)
                if (c['op'], c['root']) != (op, root):
                    violation = dict(cls='collective-mismatch', sig='collective-mismatch:%s/%s' % (c['op'], op),
                                     detail=dict(index=idx, first=[c['op'], c['root']], other=[op, root], rank=r))
                    ev = (r, 'mpi-mismatch', op, root, idx)
                    log.update(repr(ev).encode())
                    break
                c['entered'][r] = payload
                k['state'] = 'coll'
                k['pending'] = idx
                ev = (r, 'mpi', op, root, idx)
                touched.setdefault(('c', idx), []).append(r)
            elif msg[0] == 'fs':
                nfs += 1
                k['state'] = 'ready'
                ev = (r,) + tuple(msg)
                touched.setdefault(('p', msg[2] if msg[1] not in ('os.system', 'subprocess.Popen') else msg[2][:80]), []).append(r)
            elif msg[0] == 'exit':
                k['state'] = 'exited'
                k['status'] = msg[1]
                k['info'] = msg[2]
                exc = msg[2].get('exc') or {}
                ev = (r, 'exit', msg[1], exc.get('type'), exc.get('func'))
                if msg[1] != 'ok' and violation is None:
                    violation = dict(cls='rank-failed',
                                     sig='rank-failed:%s@%s:%s' % (exc.get('type'), exc.get('func'), (exc.get('text') or '')[:60]),
                                     detail=dict(rank=r, exc=exc, tb=(msg[2].get('tb') or '')[-1500:]))
            else:
                raise RuntimeError('bad message %r' % (msg[0],))
            k['nev'] += 1
            log.update(repr(ev).encode())
            if keep_trace:
                trace.append(ev)
    finally:
        for k in kids:
            if k['state'] != 'exited':
                try:
                    os.kill(k['pid'], signal.SIGKILL)
                except Exception:
                    pass
            if not k.get('remote'):
                try:
                    os.waitpid(k['pid'], 0)
                except Exception:
                    pass
            os.close(k['r'])
            os.close(k['w'])
    red = hashlib.sha256()
    nshared = 0
    for key in sorted(touched, key=repr):
        seq = touched[key]
        if len(set(seq)) >= 2:
            nshared += 1
            red.update(repr((key, seq)).encode())
    ranks = []
    for k in kids:
        info = k['info'] or {}
        ranks.append(dict(status=k['status'], exc=info.get('exc'), tb=info.get('tb'), clock=info.get('clock'),
                          out=info.get('out'), nev=k['nev'], ncoll=k['ncoll'],
                          blocked=None if k['state'] == 'exited' else k['pending']))
    return dict(violation=violation, diverged=diverged, steps=steps, digest=log.hexdigest(),
                rdigest=red.hexdigest(), nshared=nshared, choices=choices, coins=coins,
                ranks=ranks, trace=trace if keep_trace else None, nfs=nfs, nmpi=nmpi, P=P)


def rle(seq):
    out = []
    for x in seq:
        if out and out[-1][0] == x:
            out[-1][1] += 1
        else:
            out.append([x, 1])
    return out


def unrle(pairs):
    out = []
    for x, n in pairs:
        out.extend([x] * n)
    return out
