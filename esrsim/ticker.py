"""Virtual SIGALRM clock + AST statement ticker.

`signal.alarm` is replaced by VClock.alarm; `signal.signal` stays real, so the handler
that ESR's `time_limit` registers is invoked by CPython's own signal machinery when the
clock decides that a timer expires (signal.raise_signal(SIGALRM)).

Two places where an expiry can be delivered inside an open timed block:
  * 'stmt'  - at the t-th statement boundary of instrumented ESR modules (AST ticks)
  * 'deep'  - at the t-th Python `call` event anywhere (inside sympy), via sys.settrace
Never from `line` trace events (CPython 3.12.1 mis-handles exceptions raised there inside
inlined comprehensions; see DESIGN 3.5).
"""
import ast
import importlib.abc
import importlib.machinery
import operator
import os
import signal
import sys
import time

TICK_NAME = '__esrsim_tick__'
_real_setitimer = signal.setitimer
# Real-time upper bound for one timed block.  The virtual clock never expires by itself, so a
# pathological sympy call that real ESR would cut off after tmax seconds would otherwise hang the
# simulation.  An expiry by this cap is a legal timeout (fault kind F3) but load dependent: worlds
# in which it fired are flagged and only schedule/byte-independent oracles are applied to them.
REAL_CAP = float(os.environ.get('ESRSIM_REAL_CAP', '30'))


LIMITED_NAME = '__esrsim_limited__'


def _is_time_limit(e):
    if not isinstance(e, ast.Call):
        return False
    f = e.func
    return (isinstance(f, ast.Name) and f.id == 'time_limit') or (isinstance(f, ast.Attribute) and f.attr == 'time_limit')


class Ticker(ast.NodeTransformer):
    """Insert `__esrsim_tick__()` before every statement of every function body."""
    infunc = 0

    def _instr(self, body):
        out = []
        for i, st in enumerate(body):
            st = self.visit(st)
            if (i == 0 and isinstance(st, ast.Expr) and isinstance(getattr(st, 'value', None), ast.Constant)
                    and isinstance(st.value.value, str)):
                out.append(st)
                continue
            if isinstance(st, (ast.Global, ast.Nonlocal)):
                out.append(st)
                continue
            call = ast.Expr(ast.Call(ast.Name(TICK_NAME, ast.Load()), [], []))
            ast.copy_location(call, st)
            call.end_lineno = call.lineno
            ast.fix_missing_locations(call)
            out.append(call)
            out.append(st)
        return out

    def generic_visit(self, node):
        for field in ('body', 'orelse', 'finalbody'):
            v = getattr(node, field, None)
            if isinstance(v, list) and v and isinstance(v[0], ast.stmt):
                if self.infunc:
                    setattr(node, field, self._instr(v))
                else:
                    setattr(node, field, [self.visit(s) for s in v])
        if hasattr(node, 'handlers'):
            node.handlers = [self.visit(h) for h in node.handlers]
        if hasattr(node, 'cases'):
            node.cases = [self.visit(c) for c in node.cases]
        return node

    def visit_FunctionDef(self, node):
        self.infunc += 1
        self.generic_visit(node)
        self.infunc -= 1
        return node
    visit_AsyncFunctionDef = visit_FunctionDef

    def visit_With(self, node):
        node = self.generic_visit(node)
        if self.infunc and node.body and any(_is_time_limit(it.context_expr) for it in node.items):
            # probe (not a tick): the body of a `with time_limit(...)` must start with its timer armed
            call = ast.Expr(ast.Call(ast.Name(LIMITED_NAME, ast.Load()), [], []))
            ast.copy_location(call, node.body[0])
            call.end_lineno = call.lineno
            ast.fix_missing_locations(call)
            node.body.insert(0, call)
        return node

    def visit_ClassDef(self, node):
        node.body = [self.visit(s) for s in node.body]
        return node


class VClock:
    def __init__(self):
        self.reset()

    def reset(self):
        self.open = False
        self.ticks = 0
        self.calls = 0
        self.blocks = 0
        self.fire_at = None
        self.fire_line = None
        self.line_hits = {}
        self.deep = False
        self.plan = {}            # block ordinal -> (gran, t)
        self.record = False       # record per-block path classes (profile run)
        self.count_calls = False  # profile: count call events per block
        self.path = []
        self.fired = []           # (block, gran, t, func, line/file)
        self.armed_not_fired = []
        self.profile = []         # (block, nticks, ncalls, pathclass-tuple, site)
        self.site = None
        self.leaks = 0
        self.alarm_calls = 0
        self.real_expired = 0
        self.t0 = 0.0
        self.unarmed = []          # (function, line) of time-limited bodies entered with no timer armed

    # --- the replacement for signal.alarm -------------------------------------------------
    def alarm(self, n):
        n = operator.index(n)     # same TypeError as the real call for floats
        if n < 0:
            raise ValueError('alarm: negative')
        self.alarm_calls += 1
        if n > 0:
            if self.open:
                self._close(replaced=True)
            self.blocks += 1
            self.open = True
            self.ticks = 0
            self.calls = 0
            self.path = []
            f = sys._getframe(1)
            # site = caller of time_limit (two frames up: time_limit -> contextlib.__enter__ -> caller)
            site = None
            g = f
            for _ in range(6):
                if g is None:
                    break
                if g.f_code.co_name not in ('time_limit', '__enter__', 'alarm', '_v_setitimer'):
                    site = (g.f_code.co_name, g.f_lineno)
                    break
                g = g.f_back
            self.site = site
            ent = self.plan.get(self.blocks) or self.plan.get('*')
            self.fire_at = None
            self.fire_line = None
            self.deep = False
            if ent:
                if ent[0] == 'line':
                    # "this statement is slow every time": fire before the occ-th arrival at source line L
                    self.fire_line = {int(ent[1]): int(ent[2]) if len(ent) > 2 else 1}
                    self.line_hits = {}
                elif ent[0] == 'lines':
                    # several slow statements (e.g. one in sympy_simplify and one in check_results): whichever is reached first
                    self.fire_line = {int(L): int(occ) for L, occ in ent[1]}
                    self.line_hits = {}
                else:
                    self.deep = ent[0] == 'deep'
                    self.fire_at = int(ent[1])
            if self.deep or self.count_calls:
                sys.settrace(self.gtrace)
            self.t0 = time.monotonic()
            if REAL_CAP > 0:
                _real_setitimer(signal.ITIMER_REAL, REAL_CAP)
        else:
            self._close()
        return 0

    def _close(self, replaced=False):
        if REAL_CAP > 0:
            _real_setitimer(signal.ITIMER_REAL, 0)
            if self.open and time.monotonic() - self.t0 >= REAL_CAP - 0.01:
                self.real_expired += 1
        if self.open:
            if self.record:
                self.profile.append((self.blocks, self.ticks, self.calls, tuple(self.path), self.site))
            if self.fire_at is not None:
                self.armed_not_fired.append((self.blocks, 'deep' if self.deep else 'stmt', self.fire_at,
                                             self.calls if self.deep else self.ticks))
        self.open = False
        self.fire_at = None
        self.fire_line = None
        if self.deep or self.count_calls:
            sys.settrace(None)
        self.deep = False

    def _consume(self):
        """The (one-shot) timer has expired: nothing is pending any more, whether or not the
        interrupted code ever reaches its alarm(0)."""
        if REAL_CAP > 0:
            _real_setitimer(signal.ITIMER_REAL, 0)
        if self.record:
            self.profile.append((self.blocks, self.ticks, self.calls, tuple(self.path), self.site))
        self.open = False
        self.fire_at = None
        self.fire_line = None
        if self.deep or self.count_calls:
            sys.settrace(None)
        self.deep = False

    # --- invariant probe: a time-limited body runs under an armed timer ------------------------
    def limited(self):
        if not self.open and len(self.unarmed) < 20:
            f = sys._getframe(1)
            self.unarmed.append((f.f_code.co_name, f.f_lineno))

    # --- statement ticks ------------------------------------------------------------------
    def tick(self):
        if not self.open:
            return
        self.ticks += 1
        if self.record:
            self.path.append(sys._getframe(1).f_lineno)
        if self.fire_line is not None:
            f = sys._getframe(1)
            occ = self.fire_line.get(f.f_lineno)
            if occ is not None:
                h = self.line_hits[f.f_lineno] = self.line_hits.get(f.f_lineno, 0) + 1
                if h >= occ:
                    self.fire_line = None
                    self.fired.append((self.blocks, 'line', self.ticks, f.f_code.co_name, f.f_lineno, self.site))
                    self._consume()
                    signal.raise_signal(signal.SIGALRM)
            return
        if self.fire_at is not None and not self.deep and self.ticks >= self.fire_at:
            self.fire_at = None
            f = sys._getframe(1)
            self.fired.append((self.blocks, 'stmt', self.ticks, f.f_code.co_name, f.f_lineno, self.site))
            self._consume()
            signal.raise_signal(signal.SIGALRM)

    # --- deep (call-event) expiry ---------------------------------------------------------
    def gtrace(self, frame, event, arg):
        if self.open:
            self.calls += 1
            if self.deep and self.fire_at is not None and self.calls >= self.fire_at:
                self.fire_at = None
                self.fired.append((self.blocks, 'deep', self.calls, frame.f_code.co_name,
                                   frame.f_code.co_filename.split('/')[-1], self.site))
                self._consume()
                signal.raise_signal(signal.SIGALRM)
        return None

    # --- a timer that is still pending outside its block fires at the next MPI call ---------
    def on_mpi(self):
        if self.open:
            if REAL_CAP > 0:
                _real_setitimer(signal.ITIMER_REAL, 0)
            self.leaks += 1
            self.open = False
            self.fire_at = None
            self.fired.append((self.blocks, 'leak', 0, 'mpi', 0, self.site))
            signal.raise_signal(signal.SIGALRM)

    def report(self):
        return dict(blocks=self.blocks, fired=list(self.fired), armed_not_fired=list(self.armed_not_fired),
                    leaks=self.leaks, real_expired=self.real_expired, unarmed=list(self.unarmed), profile=list(self.profile) if self.record else None)


CLOCK = VClock()


class TickLoader(importlib.machinery.SourceFileLoader):
    def source_to_code(self, data, path, *, _optimize=-1):
        tree = ast.parse(data, path)
        tree = Ticker().visit(tree)
        ast.fix_missing_locations(tree)
        return compile(tree, path, 'exec', dont_inherit=True, optimize=_optimize)

    def exec_module(self, module):
        module.__dict__[TICK_NAME] = CLOCK.tick
        module.__dict__[LIMITED_NAME] = CLOCK.limited
        super().exec_module(module)

    def get_code(self, fullname):   # never read or write .pyc for instrumented modules
        path = self.get_filename(fullname)
        return self.source_to_code(self.get_data(path), path)


class TickFinder(importlib.abc.MetaPathFinder):
    def __init__(self, names):
        self.names = set(names)

    def find_spec(self, fullname, path, target=None):
        if fullname not in self.names:
            return None
        spec = importlib.machinery.PathFinder.find_spec(fullname, path)
        if spec is None or not spec.origin:
            return None
        spec.loader = TickLoader(fullname, spec.origin)
        return spec


def _v_setitimer(which, seconds, interval=0.0):
    """signal.setitimer(ITIMER_REAL, s) is virtualised exactly like alarm(s) (a refactoring of time_limit to float
    seconds must not change what the checks see); other timers go to the real call."""
    if which != signal.ITIMER_REAL:
        return _real_setitimer(which, seconds, interval)
    seconds = float(seconds)
    if seconds < 0:
        raise ValueError('setitimer: negative')
    CLOCK.alarm(1 if seconds > 0 else 0)
    return (0.0, 0.0)


def install(names):
    """Install the virtual clock (always) and the statement ticker for the named modules."""
    CLOCK.reset()
    if names:
        sys.meta_path.insert(0, TickFinder(names))
    signal.alarm = CLOCK.alarm
    signal.setitimer = _v_setitimer
