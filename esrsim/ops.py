"""Operations a rank can execute (the SPMD `program` of a world).  Runs inside rank processes
only, after the fake mpi4py, the virtual clock and the FS seam are installed."""
import json
import os
import types

LIKES = {}


def _like(ctx, name):
    return LIKES[name]


def op_gen(ctx, runname, compl, basis=None, **kw):
    if basis is not None:
        os.environ['ESR_VERIF'] = '1'
        os.environ['ESR_VERIF_BASIS'] = json.dumps(basis)
    import esr.generation.duplicate_checker as dc
    _wrap_check_results(ctx)
    dc.main(runname, compl, **kw)


def _wrap_check_results(ctx):
    """Harness observation point (not ESR code): when the result check is entered, rank 0 copies the parameter-map file as the
    combining stage has just written it to <scratch>/precheck/ (FS seam off, no collective) - the only moment at which the
    combined, pair-cancelled chains exist before check_results rewrites the file."""
    import shutil
    import esr.generation.simplifier as simplifier
    if getattr(simplifier.check_results, '_esrsim_wrapped', False):
        simplifier.check_results._esrsim_ctx[0] = ctx
        return
    orig = simplifier.check_results
    holder = [ctx]

    def check_results(dirname, compl, *a, **k):
        c = holder[0]
        if c.rank == 0:
            on = c.fs_state['on']
            c.fs_state['on'] = False
            try:
                src = '%s/inv_subs_%d.txt' % (dirname, compl)
                if os.path.exists(src):
                    dd = c.scratch + '/precheck'
                    os.makedirs(dd, exist_ok=True)
                    shutil.copy(src, '%s/%s__%d.txt' % (dd, os.path.basename(os.path.dirname(dirname.rstrip('/'))), compl))
            except Exception:
                pass
            finally:
                c.fs_state['on'] = on
        return orig(dirname, compl, *a, **k)
    check_results._esrsim_wrapped = True
    check_results._esrsim_ctx = holder
    check_results.__doc__ = orig.__doc__
    simplifier.check_results = check_results


def op_npseed(ctx, seed):
    import numpy as np
    np.random.seed((int(seed) + ctx.rank) % (2 ** 32) if ctx.per_rank_seed else int(seed) % (2 ** 32))


def op_like(ctx, name, cls, **kw):
    from esr.fitting import likelihood as L
    dd = kw.get('data_dir')
    if dd is not None and not kw.get('relative'):
        dd = ctx.scratch + '/' + dd           # 'relative': pass the directory as given, relative to the current directory
    if cls == 'Gauss':
        obj = L.GaussLikelihood(kw['data_file'], kw['run_name'], data_dir=dd, fn_set=kw.get('fn_set', 'core_maths'))
    elif cls == 'Poisson':
        obj = L.PoissonLikelihood(kw['data_file'], kw['run_name'], data_dir=dd, fn_set=kw.get('fn_set', 'core_maths'))
    elif cls == 'MSE':
        obj = L.MSE(kw['data_file'], kw['run_name'], data_dir=dd, fn_set=kw.get('fn_set', 'core_maths'))
    elif cls == 'Mock':
        obj = L.MockLikelihood(kw['nz'], kw['yfracerr'], data_dir=dd)
        if 'fn_set' in kw:
            obj.fn_dir = os.path.dirname(os.path.dirname(obj.fn_dir.rstrip('/'))) + '/function_library/' + kw['fn_set'] + '/'
    elif cls == 'CC':
        obj = L.CCLikelihood()
    elif cls == 'Base':
        obj = L.Likelihood(kw['data_file'], kw['data_file'], kw['run_name'], data_dir=dd, fn_set=kw.get('fn_set', 'core_maths'))
    else:
        raise ValueError(cls)
    for k, v in (kw.get('attrs') or {}).items():
        # user-configurable attributes of the likelihood object (prefixes of the function-prior / combine / final files)
        setattr(obj, k, v)
    LIKES[name] = obj


def op_fit(ctx, stage, comp, like, **kw):
    lk = _like(ctx, like)
    if stage == 'test_all':
        import esr.fitting.test_all as m
    elif stage == 'fisher':
        import esr.fitting.test_all_Fisher as m
    elif stage == 'match':
        import esr.fitting.match as m
    elif stage == 'plot':
        import esr.fitting.plot as m
    elif stage == 'combine':
        import esr.fitting.combine_DL as m
    else:
        raise ValueError(stage)
    m.main(comp, lk, **kw)


def op_load_subs(ctx, key, fname, max_param, use_sympy=True, bcast_res=True):
    import numpy as np
    import esr.generation.simplifier as simplifier
    res = simplifier.load_subs(ctx.scratch + '/' + fname, max_param, use_sympy=use_sympy, bcast_res=bcast_res)
    if res is None:
        ctx.report.setdefault('load_subs', {})[key] = None
        return
    import sympy
    names = ['a%i' % i for i in range(max(max_param, 1))]
    vec = sympy.Array(sympy.symbols(' '.join(names) + ' dummy_', real=True)[:len(names)])
    out, applied = [], []
    for row in res:
        r, ap = [], []
        for ent in row:
            if isinstance(ent, float) and np.isnan(ent):
                r.append('nan')
                ap.append(None)
            elif isinstance(ent, dict):
                r.append({str(k): str(v) for k, v in ent.items()})
                # what the map does to the parameter vector, the way convert_params applies it
                ap.append([str(x) for x in vec.subs(ent, simultaneous=True)])
            else:
                r.append(str(ent))
                ap.append(None)
        out.append(r)
        applied.append(ap)
    ctx.report.setdefault('load_subs', {})[key] = out
    if use_sympy:
        ctx.report.setdefault('load_subs_applied', {})[key] = applied


def op_slices(ctx, cases):
    """cases: list of [fn_set, N].  Reports the slices the fitting and generation stages use."""
    import esr.fitting.test_all as test_all
    import esr.generation.utils as utils
    out = []
    base = ctx.scratch + '/user/fitting/output'
    for fn_set, N in cases:
        lk = types.SimpleNamespace(fn_dir=ctx.scratch + '/pkg/esr/function_library/' + fn_set + '/',
                                   base_out_dir=base, out_dir=base + '/output_' + fn_set,
                                   temp_dir=base + '/partial_' + fn_set)
        ent = {'N': N}
        for uniq in (True, False):
            lst, s, e = test_all.get_functions(1, lk, unique=uniq)
            ent['gf_unique' if uniq else 'gf_all'] = [int(s), int(e), [ln.rstrip('\n') for ln in lst]]
        i = utils.split_idx(N, ctx.rank, ctx.size)
        ent['split_idx'] = [int(v) for v in i]
        out.append(ent)
    ctx.report['slices'] = out


def op_simp_inv(ctx, key, chains, max_param):
    import esr.generation.simplifier as simplifier
    dup = simplifier.get_all_dup(max_param)
    res = []
    for ch in chains:
        r = simplifier.simplify_inv_subs(list(ch), dup)
        res.append(r)
    ctx.report.setdefault('simp_inv', {})[key] = res


def op_subs_templates(ctx, max_param, ints):
    """Every substitution string form sympy_simplify can record (simplifier.py: pair table, multiples/powers
    table, sign flip, permutations, reordering), instantiated for max_param parameters and the given integers,
    rendered with str({k: v}) on sympy objects exactly as the simplifier renders them."""
    import itertools
    import numpy as np
    import sympy
    from esr.fitting.sympy_symbols import square, cube, pow_abs, sqrt_abs, log_abs
    param_list = ['a%i' % i for i in range(max_param)]
    all_a = sympy.symbols(" ".join(param_list), real=True)
    if max_param == 1:
        all_a = [all_a]
    Abs = sympy.Abs
    out = [str(np.nan)]
    for c in itertools.combinations(np.flip(np.arange(max_param)), 2):
        A, B = all_a[c[0]], all_a[c[1]]
        plain = [A + B, A - B, B - A, A * B, A / B, B / A, A + Abs(B), A - Abs(B), Abs(B) - A, A * Abs(B), A / Abs(B), B / Abs(A),
                 B + Abs(A), B - Abs(A), Abs(A) - B, B * Abs(A), Abs(A) - Abs(B), Abs(B) - Abs(A)]
        absd = [Abs(A) * Abs(B), Abs(A) + Abs(B), Abs(A) / Abs(B), Abs(B) / Abs(A), pow_abs(B, A), pow_abs(A, B),
                pow_abs(B, Abs(A)), pow_abs(A, Abs(B))]
        for v in (0, 1):
            for e in plain:
                out.append(str({e: all_a[c[v]]}))
            for e in absd:
                out.append(str({e: Abs(all_a[c[v]])}))
    for a in all_a:
        for n in ints:
            n = sympy.Integer(n)
            if n == 0:
                continue
            out.append(str({a: a / n}))
            if n.is_even:
                out.append(str({a: pow_abs(a, 1 / n)}))
                out.append(str({a: pow_abs(a, 1 / (n + 1))}))
            else:
                out.append(str({a: a ** (1 / n)}))
                out.append(str({a: pow_abs(a, 1 / (n + 1)) * sympy.sign(a)}))
        out += [str({a: sqrt_abs(a)}), str({a: a ** sympy.Rational(1, 3)}), str({a: pow_abs(a, sympy.Rational(1, 3))}),
                str({a: square(a)}), str({a: sympy.exp(a)}), str({a: log_abs(a)}), str({a: -a}), str({a: 1 / a})]
    for k in range(2, max_param + 1):
        s = list(all_a[:k])
        for p in itertools.permutations(range(k)):
            d = {s[i]: s[p[i]] for i in range(k) if i != p[i]}
            if d:
                out.append(str(d))
    # reordering maps {a_common[i]: a_i}
    for k in range(1, max_param):
        for common in itertools.combinations(range(max_param), k):
            d = {all_a[common[i]]: all_a[i] for i in range(k)}
            if any(kk != vv for kk, vv in d.items()):
                out.append(str(d))
    # the same multi-key maps with the keys written in the opposite order (dict order in the simplifier depends on set
    # iteration, i.e. on the hash seed)
    import re as _re
    for t in list(out):
        if t.startswith('{') and t.count(': ') >= 2 and '(' not in t:
            items = t[1:-1].split(', ')
            out.append('{' + ', '.join(reversed(items)) + '}')
    seen, uniq = set(), []
    for t in out:
        if t not in seen and 'zoo' not in t:
            seen.add(t)
            uniq.append(t)
    ctx.report['templates'] = uniq


def op_snapshot(ctx, pairs):
    """Harness op (not ESR code): between two barriers rank 0 copies files/dirs inside scratch; FS seam off."""
    import shutil
    ctx.comm.Barrier()
    if ctx.rank == 0:
        on = ctx.fs_state['on']
        ctx.fs_state['on'] = False
        try:
            for src, dst in pairs:
                s_, d_ = ctx.scratch + '/' + src, ctx.scratch + '/' + dst
                if os.path.isdir(s_):
                    shutil.copytree(s_, d_, dirs_exist_ok=True)
                elif os.path.exists(s_):
                    os.makedirs(os.path.dirname(d_), exist_ok=True)
                    shutil.copy(s_, d_)
        finally:
            ctx.fs_state['on'] = on
    ctx.comm.Barrier()


VICTIM_SRC = '''
from esr.generation.simplifier import time_limit, TimeoutException
import sympy

def helper(v):
    w = v + 1
    return w * 2

def work(log, n):
    x = sympy.Symbol('x')
    for i in range(n):
        keep = i
        try:
            with time_limit(5):
                a = [helper(j) for j in range(3)]
                b = sum(a)
                e = ((x + i) ** 3).expand()
                c = [k for k in a if k > 2]
                log.append(('done', i))
        except TimeoutException:
            log.append(('caught', i))
    return log
'''


def op_victim(ctx, n=2):
    """Self-test of the injector on the running interpreter: every planned fault inside the victim's timed
    blocks must be caught by the enclosing `except TimeoutException` - none may escape or be lost."""
    import importlib
    path = ctx.scratch + '/pkg/victim_mod.py'
    if ctx.rank == 0 and not os.path.exists(path):
        with open(path, 'w') as f:
            f.write(VICTIM_SRC)
    ctx.comm.Barrier()
    import victim_mod
    importlib.reload(victim_mod) if False else None
    log = victim_mod.work([], n)
    ctx.report['victim'] = log


def op_rewrite_prior(ctx, runname, compl, prefix='aifeyn_', mode='reverse'):
    """Harness op (not ESR code): between two barriers rank 0 replaces the function-prior file of a library by one with the
    same number of entries and other values - what regenerating a library with reordered operator lists, or re-training a
    user prior, does to that file between two runs."""
    ctx.comm.Barrier()
    if ctx.rank == 0:
        on = ctx.fs_state['on']
        ctx.fs_state['on'] = False
        try:
            p = ctx.scratch + '/pkg/esr/function_library/%s/compl_%d/%s%d.txt' % (runname, compl, prefix, compl)
            with open(p) as f:
                vals = f.read().split()
            if mode == 'reverse':
                vals = vals[::-1]
            else:
                vals = [repr(float(v) + 0.75 * ((i * 7) % 5)) for i, v in enumerate(vals)]
            with open(p, 'w') as f:
                f.write(''.join(v + '\n' for v in vals))
        finally:
            ctx.fs_state['on'] = on
    ctx.comm.Barrier()


def op_rewrite_data(ctx, path):
    """Harness op (not ESR code): between two barriers rank 0 puts a NaN measurement into a data file - the data of a run
    name change between two runs (a corrupted measurement); every function then ends with a NaN description length."""
    ctx.comm.Barrier()
    if ctx.rank == 0:
        on = ctx.fs_state['on']
        ctx.fs_state['on'] = False
        try:
            p = ctx.scratch + '/' + path
            with open(p) as f:
                lines = f.read().splitlines()
            parts = lines[0].split()
            parts[1] = 'nan'
            lines[0] = ' '.join(parts)
            with open(p, 'w') as f:
                f.write('\n'.join(lines) + '\n')
        finally:
            ctx.fs_state['on'] = on
    ctx.comm.Barrier()


def op_weak_fisher(ctx, path, factor):
    """Harness op (not ESR code): between two barriers rank 0 scales the stored second derivatives (the input of the match
    stage) - data that constrain the parameters weakly.  With a small factor every parameter lies within one precision step of
    zero, so match.main enters its rarely used "set parameters to zero" branches."""
    ctx.comm.Barrier()
    if ctx.rank == 0:
        on = ctx.fs_state['on']
        ctx.fs_state['on'] = False
        try:
            p = ctx.scratch + '/' + path
            out = []
            with open(p) as f:
                for ln in f.read().splitlines():
                    out.append(' '.join('%.7e' % (float(t) * factor) for t in ln.split()))
            with open(p, 'w') as f:
                f.write('\n'.join(out) + '\n')
        finally:
            ctx.fs_state['on'] = on
    ctx.comm.Barrier()


def op_barrier(ctx):
    ctx.comm.Barrier()


def op_check_results(ctx, runname, compl, **kw):
    import esr.generation.simplifier as simplifier
    d = ctx.scratch + '/pkg/esr/function_library/' + runname + '/compl_%i' % compl
    simplifier.check_results(d, compl, **kw)


API_BASIS = [["x", "a"], ["inv"], ["+", "*", "-", "/", "pow"]]


def op_api(ctx, what, like=None, fun=None):
    """Earlier calls of ESR's other public entry points in the same process (the single-function API of
    esr.fitting.fit_single and the string/tree helpers of esr.generation.generator, used as examples/fit_from_string.py and
    tests/test_esr.py use them).  Every rank makes the same calls (none of them communicates)."""
    import sympy
    import esr.generation.generator as generator
    if what == 'string_to_node':
        # verbatim from examples/fit_from_string.py: the caller's own symbol table (x and the parameters merely real)
        maxvar = 20
        x = sympy.symbols('x', real=True)
        a = sympy.symbols([f'a{i}' for i in range(maxvar)], real=True)
        locs = {**{'x': x}, **{f'a{i}': a[i] for i in range(maxvar)}}
        for f in (fun or ['1.1 * x ** 4 + 2 * x ** 3 + 4 * x ** 2 + 3 * x + 5', 'a0 + a1 * x**3', 'a0 / (x + a1)']):
            expr, nodes, comp = generator.string_to_node(f, API_BASIS, locs=locs, evalf=True)
            nodes.to_list(API_BASIS)
    elif what == 'string_to_node_default':
        for f in (fun or ['a0 + a1 * x**3', 'x**2 + 3*x', '1']):
            expr, nodes, comp = generator.string_to_node(f, API_BASIS, evalf=True)
            nodes.to_list(API_BASIS)
            nodes.count_nodes(API_BASIS)
            nodes.is_unity()
    elif what == 'aifeyn':
        from esr.fitting.fit_single import tree_to_aifeyn, string_to_aifeyn
        tree_to_aifeyn(["+", "a0", "*", "a1", "pow", "x", "3"], API_BASIS, verbose=False)
        string_to_aifeyn("a0 + a1 * x**3", API_BASIS, verbose=False)
        string_to_aifeyn("2.5 * x + 1.5", API_BASIS, verbose=False, replace_floats=True)
    elif what == 'single_function':
        from esr.fitting.fit_single import single_function
        single_function(["+", "a0", "*", "a1", "pow", "x", "3"], API_BASIS, _like(ctx, like), verbose=False, Niter=3, Nconv=1)
    elif what == 'fit_from_string':
        from esr.fitting.fit_single import fit_from_string
        fit_from_string(fun or "a0 + a1 * x**3", API_BASIS, _like(ctx, like), Niter=3, Nconv=1)
    elif what == 'run_sympify':
        lk = _like(ctx, like)
        for f in ('a0*x + a1', 'pow(x,a0)', 'sqrt(x) + log(x)*a0', 'inv(x) + square(a0) - cube(x)'):
            lk.run_sympify(f, tmax=5, try_integration=False)
    else:
        raise ValueError(what)


OPS = dict(api=op_api, gen=op_gen, npseed=op_npseed, like=op_like, fit=op_fit, load_subs=op_load_subs,
           slices=op_slices, simp_inv=op_simp_inv, subs_templates=op_subs_templates, snapshot=op_snapshot, victim=op_victim, rewrite_prior=op_rewrite_prior, rewrite_data=op_rewrite_data, weak_fisher=op_weak_fisher, barrier=op_barrier, check_results=op_check_results)


def run_program(program, rank, size, scratch, report, comm, fs_state=None, op_plans=None):
    ctx = types.SimpleNamespace(rank=rank, size=size, scratch=scratch, report=report, comm=comm,
                                per_rank_seed=True, fs_state=fs_state if fs_state is not None else {'on': False})
    report['ops_done'] = 0
    for oi, op in enumerate(program):
        name, kw = op[0], (op[1] if len(op) > 1 else {})
        if op_plans is not None:
            # fault plans scoped to one operation of the program: block ordinals count from the start of that operation
            from . import ticker
            pl = (op_plans.get(str(oi)) or op_plans.get(oi) or {})
            pl = pl.get(str(rank), pl.get(rank, {})) or {}
            ticker.CLOCK.plan = {(k if k == '*' else int(k)): tuple(v) for k, v in pl.items()}
            ticker.CLOCK.blocks = 0
        OPS[name](ctx, **kw)
        report['ops_done'] += 1
