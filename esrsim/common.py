"""Shared low-level helpers: framed pickle transport over pipes, environment pinning."""
import os
import pickle
import struct
import sys

REPO = os.environ.get('ESRSIM_REPO', '/repo')
VERIF = os.path.dirname(os.path.dirname(os.path.abspath(__file__)))
PY = '/venv/bin/python'


def pin_env(env=None):
    """Environment every simulator process runs under (determinism + fork safety)."""
    env = dict(os.environ if env is None else env)
    env.update(OPENBLAS_NUM_THREADS='1', OMP_NUM_THREADS='1', MKL_NUM_THREADS='1',
               NUMEXPR_NUM_THREADS='1', LC_ALL='C', LANG='C', MPLBACKEND='Agg',
               PYTHONDONTWRITEBYTECODE='1', ESR_VERIF='1')
    env.setdefault('PYTHONHASHSEED', '0')
    return env


def send(fd, obj):
    b = pickle.dumps(obj, protocol=pickle.HIGHEST_PROTOCOL)
    b = struct.pack('<Q', len(b)) + b
    off = 0
    mv = memoryview(b)
    while off < len(b):
        off += os.write(fd, mv[off:off + (1 << 16)])


def readn(fd, n):
    out = bytearray()
    while len(out) < n:
        c = os.read(fd, n - len(out))
        if not c:
            raise EOFError('peer closed pipe')
        out += c
    return bytes(out)


def recv(fd):
    n, = struct.unpack('<Q', readn(fd, 8))
    return pickle.loads(readn(fd, n))


def scratch_root():
    for d in ('/dev/shm', os.environ.get('TMPDIR', '/var/tmp')):
        if os.path.isdir(d) and os.access(d, os.W_OK):
            return d
    return '/var/tmp'
